#!/bin/bash
# tools/seed_verify.sh <PROP> <A|B> <pkgdir-for-demo> <go test -run regex>
# Confirms a sub-agent's seeded defect in a fresh scratch worktree: patch applies, the
# repository's own suite still passes, the demo fails with the patch and passes without.
# On success stores it as /verif/seeded/<PROP>-<A|B>/ (patch.diff, demo, meta.json).
set -u
prop=$1; ab=$2; pkg=$3; run=$4
src=/tmp/mut/$prop/DELIVER/$ab
. /verif/bin/env.sh
wt=/tmp/sv/$prop$ab
rm -rf "$wt"; git -C /repo worktree prune; git -C /repo worktree add -q --detach "$wt" HEAD || exit 2
cd "$wt"
demo=$(ls "$src"/*_test.go | head -1)
mkdir -p "$wt/$pkg"; cp "$demo" "$wt/$pkg/zz_demo_test.go"; sed -i "/^\/\/go:build/d; /^\/\/ +build/d" "$wt/$pkg/zz_demo_test.go"
go test -vet=off -count=1 -run "$run" "./$pkg/" > /tmp/sv/$prop$ab.without.log 2>&1; without=$?
git apply "$src/patch.diff" || { echo "PATCH DOES NOT APPLY"; exit 2; }
go test -vet=off -count=1 -run "$run" "./$pkg/" > /tmp/sv/$prop$ab.with.log 2>&1; with=$?
rm "$wt/$pkg/zz_demo_test.go"
go test -vet=off -count=1 $(go list ./... | grep -v -e pfring -e pfdump -e afpacket -e bsdbpf -e examples) > /tmp/sv/$prop$ab.suite.log 2>&1
fails=$(grep -E "^(--- FAIL|FAIL)" /tmp/sv/$prop$ab.suite.log | grep -v -e TestEthernetHandle_Close -e "^FAIL$" -e "gopacket/pcapgo" | head)
if echo "$fails" | grep -q routing; then
  # routing's tests create veth devices and collide with concurrent runs: retry that package alone
  for i in 1 2 3; do sleep 2; if go test -vet=off -count=1 ./routing/ > /tmp/sv/$prop$ab.routing.log 2>&1; then fails=$(echo "$fails" | grep -v -e routing -e TestRouting); break; fi; done
fi
echo "demo without patch exit=$without (want 0); with patch exit=$with (want !=0); unexpected suite failures: [${fails}]"
cd /; git -C /repo worktree remove --force "$wt"
if [ $without -eq 0 ] && [ $with -ne 0 ] && [ -z "$fails" ]; then
  d=/verif/seeded/$prop-$ab; mkdir -p $d
  cp "$src/patch.diff" $d/; cp "$demo" $d/demo_test.go.txt; cp "$src/README.md" $d/README.md 2>/dev/null
  python3 - "$prop" "$ab" "$pkg" "$run" <<'PY'
import json,sys
prop,ab,pkg,run=sys.argv[1:5]
d=f"/verif/seeded/{prop}-{ab}"
json.dump({"property":prop,"id":f"{prop}-{ab}","demo_package_dir":pkg,"demo_run":run,
 "confirmed":{"patch_applies":True,"suite_passes_with_patch":True,"demo_fails_with_patch":True,"demo_passes_without_patch":True},
 "what_i_ran":"tools/seed_verify.sh: fresh scratch worktree of /repo; demo copied into the package as zz_demo_test.go; go test -run <demo> without and with patch; full suite (go test ./... minus pfring/afpacket/bsdbpf/examples) with patch",
 "needs_to_manifest":"see README.md","detected_by":None}, open(d+"/meta.json","w"), indent=1)
PY
  echo "STORED $d"
else
  echo "NOT CONFIRMED"; tail -n 5 /tmp/sv/$prop$ab.with.log /tmp/sv/$prop$ab.without.log
fi
