#!/bin/bash
# tools/run_mutant.sh <seeded-dir-name> <PROP> [quick|thorough]
# Runs one check against a seeded defect in a scratch worktree (never in /repo);
# evidence and findings of the run go to a scratch directory, not to /verif/evidence.
set -u
sd=$1; prop=$2; tier=${3:-quick}
wt=/tmp/mr/$sd-$prop
rm -rf "$wt"; git -C /repo worktree prune
git -C /repo worktree add -q --detach "$wt" HEAD || exit 2
git -C "$wt" apply /verif/seeded/$sd/patch.diff || { echo "patch does not apply to current HEAD"; git -C /repo worktree remove --force "$wt"; exit 2; }
export VERIF_REPO=$wt VERIF_WORK=/verif/.work/mut-$sd-$prop
export VERIF_EVIDENCE_DIR=$VERIF_WORK/evidence VERIF_FINDINGS_DIR=$VERIF_WORK/findings
mkdir -p "$VERIF_WORK"
/verif/bin/check $prop $tier > $VERIF_WORK/out.log 2>&1
rc=$?
echo "== $sd vs $prop ($tier): exit=$rc"
grep -E "^VIOLATION" $VERIF_WORK/out.log | cut -c1-400 | head -5
grep -E "^RESULT" $VERIF_WORK/out.log
git -C /repo worktree remove --force "$wt"
rm -rf "$VERIF_WORK/bin" "$VERIF_WORK/ov"
exit $rc
