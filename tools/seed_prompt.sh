#!/bin/bash
# tools/seed_prompt.sh <PROP> <letters e.g. "C D"> -> prints the sub-agent prompt (property text only, nothing from /verif)
# and prepares the agent's scratch worktree /tmp/mut/<PROP>/wt
prop=$1; letters=${2:-"C D"}
wt=/tmp/mut/$prop/wt
mkdir -p /tmp/mut/$prop/DELIVER
git -C /repo worktree prune
[ -d "$wt" ] || git -C /repo worktree add -q --detach "$wt" HEAD >&2
title=$(jq -r "select(.id==\"$prop\")|.title" /verif/properties.jsonl)
stmt=$(jq -r "select(.id==\"$prop\")|.statement" /verif/properties.jsonl)
n=$(echo $letters | wc -w)
cat <<P
You are helping test a verification framework for the Go library gopacket/gopacket. Your job is to write $n realistic, subtle, property-BREAKING change(s) to the library (think: a plausible refactoring slip, an optimisation with a corner-case hole, two cooperating edits that each look fine alone) - NOT to fix anything.

Work ONLY inside your private git worktree of the repository: $wt (a detached checkout of the current HEAD). Never touch /repo or /verif, and do not read anything under /verif.

The property to break (and the only specification you get):

  $prop - $title
  $stmt

Requirements for each change:
1. It still compiles and the repository's existing test suite still passes with it: from $wt run
     go test -vet=off -count=1 \$(go list ./... | grep -v -e pfring -e pfdump -e afpacket -e bsdbpf -e examples)
   (the two pcapgo TestEthernetHandle_Close_* tests fail in this sandbox with or without any change; ignore those two only. The routing tests may be flaky when run concurrently - rerun ./routing/ alone if they fail.)
2. It breaks the property above, but only under something SPECIFIC: a particular interleaving, a fault at a particular point, a multi-step sequence of operations, an unusual input or configuration, or two cooperating sites. Ordinary use (and the existing tests) must not expose it at once. Prefer changes in shared mutable state, cursor/offset/length arithmetic, boundary comparisons, reset/cleanup paths, or rarely taken branches. It must be a change to non-test library code (no test edits, no new build tags), small (roughly 1-25 lines).
3. A demonstration: ONE Go test file (package-internal or external test, public API preferred) that FAILS with the change applied and PASSES on the untouched tree, deterministic (no reliance on wall-clock timing or luck; if concurrency is needed make it deterministic or make the failure certain).
4. The changes must be independent of each other (each applies alone to a clean checkout of HEAD) and should attack different mechanisms/sites.

Environment (offline sandbox, no network). In EVERY shell call first run:
  export GOFLAGS=-mod=mod GOPROXY=off GOSUMDB=off GOTOOLCHAIN=local PATH=/root/go/pkg/mod/golang.org/toolchain@v0.0.1-go1.25.0.linux-amd64/bin:\$PATH
To switch between changed and clean trees save your change with 'git -C $wt diff > /tmp/mut/$prop/p.diff; git -C $wt checkout -- .' and restore it with 'git -C $wt apply /tmp/mut/$prop/p.diff'. Do NOT use 'git stash' (the stash is shared by all worktrees of the repository and other agents work in sibling worktrees); do not commit.

Deliverables - for each change, in directory /tmp/mut/$prop/DELIVER/<L>/ with <L> = $(echo $letters | sed 's/ / and /g'):
  patch.diff     - 'git diff' of the library change only (must apply with 'git apply' to a clean checkout of HEAD; do NOT include the demo test)
  demo_test.go   - the demonstration test file (any name ending in _test.go); state in README which package directory it must be copied into and the -run regex
  README.md      - what was changed and why it looks innocent, why it breaks the property, exactly what it needs in order to manifest, the package dir + 'go test -run' regex for the demo, and the outputs you observed: suite with change (pass), demo with change (fail), demo without change (pass)
Before finishing, verify each deliverable from a clean tree: 'git checkout -- .' ; demo passes; 'git apply patch.diff'; demo fails; suite passes; then leave the worktree clean (git checkout -- . and remove your demo file). Keep DELIVER outside the worktree as specified.

Your final answer: for each change one paragraph (files/functions touched, what triggers it, package dir and -run regex of the demo).
P
