#!/usr/bin/env python3
"""Manual tool (never run by a check): append the violations currently under
findings/<ID>/ to known_findings.jsonl as status=known after they have been
classified as genuine defects.  usage: kf_add.py C19 [substring-filter] """
import json, glob, sys, os
root = os.path.dirname(os.path.dirname(os.path.abspath(__file__)))
pid = sys.argv[1]
flt = sys.argv[2] if len(sys.argv) > 2 else ""
kf = os.path.join(root, "known_findings.jsonl")
have = set()
if os.path.exists(kf):
    for l in open(kf):
        l = l.strip()
        if l and not l.startswith("#"):
            d = json.loads(l); have.add((d["property"], d["key"]))
n = 0
with open(kf, "a") as out:
    for f in sorted(glob.glob(os.path.join(root, "findings", pid, "*.json"))):
        d = json.load(open(f))
        if flt and flt not in d["key"]: continue
        if (pid, d["key"]) in have: continue
        ex = d.get("replay")
        if isinstance(ex, dict):
            ex = ex.get("case", ex)
        out.write(json.dumps({"property": pid, "status": "known", "key": d["key"], "what": d["what"], "example": ex}) + "\n")
        n += 1
print("added", n)
