#!/usr/bin/env python3
"""seed_mark.py <seeded-id> <check> <detected:yes|no> <note>  -- record a check result in seeded/<id>/meta.json"""
import json, sys
sid, chk, det, note = sys.argv[1:5]
p = f"/verif/seeded/{sid}/meta.json"
d = json.load(open(p))
r = d.get("check_results") or {}
r[chk] = {"detected": det == "yes", "note": note}
d["check_results"] = r
d["detected_by"] = sorted(k for k, v in r.items() if v["detected"])
json.dump(d, open(p, "w"), indent=1)
