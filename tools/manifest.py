#!/usr/bin/env python3
"""Generates /verif/MANIFEST.json from the table below and validates it.
Edit CHECKS when a check is added; properties without an entry are listed
under not_applicable with the reason given in PENDING."""
import json, os, sys

ROOT = os.path.dirname(os.path.dirname(os.path.abspath(__file__)))

# id -> (engine, category, technique, text, note, design_ref)
CHECKS = {
    "C07": dict(engine="enum", category="exploration", design_ref="DESIGN.md section 7 C07",
        technique="bounded-exhaustive enumeration of decoded layer values x option sets x serialize-buffer histories on the real serializers, comparing outputs across histories",
        text="Every serializable layer of every packet decoded from the deviation<=1 input neighbourhoods (including packets that ended in an error layer) and from every seed decoded as every first layer is written over its own payload with each of the 4 FixLengths/ComputeChecksums combinations into buffers with different histories (fresh, cleared after holding 3000+3000 bytes of two distinct fill patterns, expected-size hints; all 8 histories for unmodified seeds and in the thorough tier); the layer is decoded anew for every write. No write may panic; all histories must agree on error-or-not and on every output byte; the same value written three times must give identical bytes the second and third time.",
        note="Layer values built by hand through public fields are not enumerated (only values that decoding produces). Known findings: DHCPv4, DNS, Dot11, SCTPCookieEcho leave requested bytes unwritten; BFD and STP panic on decoded values."),
    "C05": dict(engine="enum", category="exploration", design_ref="DESIGN.md section 7 C05",
        technique="bounded-exhaustive enumeration of inputs x layer subsets x containers x fill orders against a reference derived from packet decoding observed through a wrapper PacketBuilder; all ordered pairs of seeds for stale state",
        text="For every input of the deviation<=1 neighbourhoods of the Ethernet/IPv4/IPv6 fixture seeds: DecodingLayerParser over a 12-member universe (Ethernet, Dot1Q, ARP, IPv4, IPv6, TCP, UDP, ICMPv4, ICMPv6, DNS, Payload, Fragment) in the map, sparse, array and a custom slice container, filled by Put and by AddDecodingLayer, every 11-member subset, IgnoreUnsupported on/off, decoded pre-filled; for unmodified seeds all 4096 subsets and the other first layers. Reference: NewPacket(DecodeStreamsAsDatagrams) observed through a wrapper builder that records which decoder call failed and where SetTruncated was called; expected = leading run of packet layers inside the set. Compared: reported type list, Truncated, no spurious decode error, and every exported field plus method results (payload, next type, flows, rendering) of each reported preallocated object against the packet's layer. Stale state: every ordered pair of unmodified seeds decoded into the same objects vs fresh objects.",
        note="Trusted: reflection comparison of exported fields and method results; unexported scratch storage is not compared. A preallocated object of a type that occurs twice in the run holds the last occurrence only."),
    "C14": dict(engine="enum", category="fault_enumeration", design_ref="DESIGN.md section 7 C14",
        technique="exhaustive crash-point enumeration: every byte-offset truncation of every file produced from a systematically enumerated family of packet sequences / interface / option values, plus whole-file round trips through every read call and a differential read with libpcap",
        text="About 2000 [thorough more] capture files are produced with the real writers (classic pcap micro/nano: all 1- and 2-packet [3-packet] sequences over 8 data lengths x 3 wire-length surpluses x 5 timestamps incl. 2^31-1 and 2^32-1 s; pcapng: every interface and section string at lengths 0,1,3,4,5, snap lengths, if_tsoffset, the full product of comment/hash/verdict lists incl. empty values and lengths not a multiple of 4, 1-3 interfaces with equal or mixed link types). Each file is read back with every read call and must return the same packets, lengths, timestamps, interfaces, options; for EVERY byte offset the prefix must yield exactly the packets whose record lies wholly inside it, unaltered, then io.EOF/io.ErrUnexpectedEOF; libpcap must read the same packets from the files it accepts.",
        note="Trusted: libpcap of the image for the differential clause. Known finding: if_tsoffset is announced but not subtracted by the writer (the repository's own test asserts the shifted value)."),
    "C15": dict(engine="enum", category="fault_enumeration", design_ref="DESIGN.md section 7 C15",
        technique="bounded-exhaustive input deviation enumeration (every truncation, byte, 16/32-bit field overwrite in both byte orders) and exhaustive stream-fault enumeration (every chunking position, every injected-error position) on the real readers, in crash/hang/OOM-attributing worker subprocesses with per-call allocation accounting",
        text="Every repository capture file up to 1.7 kB [thorough 3 kB] (pcap, pcapng little/big endian), two synthetic snoop files and gzip-wrapped copies; deviation <= 1: unmodified, every truncation, every byte x 24 values, every aligned 32-bit word x 16 values and 16-bit word x 7 values in both byte orders; read to the end with the matching reader (pcapng with 3 option sets) alternating copying/zero-copy/with-options calls, and again in reads of 1, 3, 7 bytes. On unmodified seeds: 7 constant read sizes, one short read at every offset, one injected error (plain, net.Error timeout) at every read call. Per call: no panic, no stall, no worker death, <= bytes+16 calls, len(data)=CaptureLength<=Length, allocation <= 4*(stream bytes+declared snap length)+1MiB, identical results under every chunking, injected errors surface, earlier packets unchanged.",
        note="Trusted: runtime/metrics allocation counter; 6 GiB address-space limit and 120 s watchdog per worker. With a declared snap length above 16 MiB only the copying read calls are used (a buffer-reusing read sizes its buffer to the declared snap length by design)."),
    "C13": dict(engine="enum", category="exploration", design_ref="DESIGN.md section 7 C13",
        technique="exhaustive enumeration of fragment arrival sequences (all partitions x all permutations x duplicates x interleavings; all hostile sequences up to a depth) on the real defragmenters with provenance-encoding payloads",
        text="IPv4: every composition of a datagram of 1..7 [thorough 8] 8-byte units into fragments x every arrival order x header lengths {20,24,40,60} x one duplicated fragment at every position, and every merge with a second datagram's fragments for small N: nothing returned before the last missing fragment, then exactly one datagram with the original payload (bytes encode datagram id and offset), MF/offset cleared, Length = IHL*4 + payload. Every sequence of <=4 [5] fragments over all ranges x MF of a 6-unit datagram (hostile: holes, overlaps, conflicting finals): any datagram returned consists only of received bytes at their own offsets. Limits (undersized, offset > 8183, overrun, long lists), pass-through of unfragmented/DF packets as the same pointer, DiscardOlderThan before/at the cut-off. IPv6: all compositions x orders x duplicates for N<=6 [7].",
        note="Trusted: provenance encoding (payload byte = id<<6|offset). Datagrams are at most 64 bytes; payloads up to 65515 bytes are not enumerated."),
    "C17": dict(engine="enum", category="exploration", design_ref="DESIGN.md section 7 C17",
        technique="exhaustive pair/triple enumeration over a small closed set of endpoints for the value algebra; bounded-exhaustive input enumeration for the layer-to-flow clause with the header layout as reference",
        text="All ordered pairs and all triples of 630 endpoints (5 types x 126 address strings incl. lengths 0..3 exhaustively over {0,1,0xff} and lengths 4/6/15/16 with every single-position variation): equality <=> type+bytes, map-key interchangeability, strict total order (irreflexive, asymmetric, total, transitive), FlowFromEndpoints/Endpoints/NewFlow/Reverse identities, FastHash(f)=FastHash(reverse f), type mismatch refused, 17-byte addresses refused. For every decoded Ethernet/IPv4/IPv6/TCP/UDP/UDPLite/SCTP layer in the deviation<=1 input neighbourhoods: the reported flow equals the address bytes of the layer's own header, and the input with those bytes swapped yields the reversed flow with an equal hash.",
        note="Trusted: the address offsets of the seven standard headers. Other flow-exposing layers (FDDI, LinuxSLL, PPP, RUDP, ...) are only counted, not judged."),
    "C08": dict(engine="enum", category="exploration", design_ref="DESIGN.md section 7 C08",
        technique="exhaustive enumeration: all 2^32 fold inputs; all short byte strings for the sum; per protocol/pseudo-header/payload-length a full sweep of all 65536 values of one 16-bit word through serialization, verification and every single-bit corruption, against an independent exact-arithmetic reference",
        text="FoldChecksum is compared with the arithmetic definition for all 2^32 accumulator values; ComputeChecksum for all byte strings of length <=2 [3] x 5 initial values plus constant fills up to 70000 bytes against an exact 64-bit sum. For IPv4 header (with/without options), TCP (with/without options), UDP, ICMPv4, GRE over IPv4 and TCP, UDP, ICMPv6 over IPv6 x payload lengths {0,1,2,3,4,5,8,9} x all 65536 values of one 16-bit word (so every checksum outcome incl. 0x0000/0xffff occurs): written bytes equal the reference; the decoded packet verifies as valid with Correct = reference; for 258 [thorough 3857] word values per configuration every bit of every covered non-framing byte (incl. pseudo-header addresses and the checksum field) is flipped and verification must report a mismatch with Correct = reference of the corrupted data (UDP: stored 0 = no checksum).",
        note="Trusted: the 25-line reference (exact integer sum, end-around carry, RFC 768 zero rule). Bit flips in framing fields are not applied. Jumbogram-sized sums (>128 KiB) are outside the enumerated lengths."),
    "C04": dict(engine="sched", category="model_checking", design_ref="DESIGN.md section 7 C04",
        technique="(a) bounded-exhaustive input x option enumeration against the default decode, (s) exhaustive NewPacket/Dispose/Touch histories with the pool's Get as an explorer choice plus preemption-bounded schedule exploration of concurrent histories, on packet.go compiled against the sync shim",
        text="Part a: every (first layer, input) of the deviation<=1 neighbourhoods and every fixture resized to 0/1/1499/1500/1501/3000/65535 bytes: NoCopy, Pool and NoCopy+Pool decodes (eager and lazy, DSAD on/off) equal the copying decode, PooledPacket iff Pool && !NoCopy && len<=1500, and a packet decoded with copying options is unchanged after every byte of the caller's buffer is complemented. Part s: all histories of depth 6 [7] over New(4 lengths x eager/lazy)/Dispose/Touch with <=3 live packets where Pool.Get may return any previously returned block or a fresh one; 2-3 goroutines running New/Touch/Dispose programs under every schedule with <=3 [4] preemptions, scheduling points before and after every pool operation. Invariant after every operation: undisposed pooled packets have pairwise distinct blocks and still read their original bytes.",
        note="Trusted: the shim pool over-approximates sync.Pool; recycled blocks are poisoned so reads beyond len(data) are deterministic. Known findings: decoders that read beyond len(data) give different results with Pool (same root cause as C19 sites)."),
    "C03": dict(engine="statex", category="model_checking", design_ref="DESIGN.md section 7 C03",
        technique="explicit-state search over (lazy packet state x accessor alphabet) on the real lazy packet, every answer compared with the eager packet; plus unpruned enumeration of all accessor programs of length 3/4; plus full-decode equivalence on every enumerated input",
        text="For every non-empty input of the deviation<=1 neighbourhoods of the per-type fixture seeds x {NoCopy} x {DecodeStreamsAsDatagrams}: the lazy packet after Layers() equals the eager one (layers, contents, payloads, rendered fields, link/network/transport/application/error layers, truncation, String). For one representative per decode shape (the step-by-step trajectory of the lazy decode, read through an injected accessor): BFS over lazy states x ~18 accessor letters (Layer(t) for present and absent types, LayerClass, the five special-layer getters, Layers, String, Dump), each transition a fresh lazy packet with the path replayed, each answer compared with the eager packet's answer. For every unmodified seed: all programs of length 3 [thorough 4], unpruned.",
        note="Trusted: pruning key (layers decoded, continuation, special layers set, truncated) determines the future of a lazy packet on a non-caching implementation; the unpruned enumeration guards that assumption. Dump compared only without error layer."),
    "C12": dict(engine="sched", category="model_checking", design_ref="DESIGN.md section 7 C12",
        technique="stateless preemption-bounded exploration of all thread interleavings of the real assemblers under a cooperative scheduler over a sync shim (import rewrite via go build -overlay), iterating the bound 0,1,2[,3]",
        text="Six scenarios (first packets of both directions racing; same-direction first-packet race; close + free-list reuse against a stale lookup; flusher against assembler; out-of-order against in-order feeder; three assemblers) with 2-3 assemblers on one shared pool and keys forced to collide are executed, for tcpassembly and reassembly separately, under every schedule with at most 2 [thorough 3] preemptions, scheduling points before every Mutex/RWMutex operation and inside the stream callbacks. Per execution: no panic, deadlock or livelock; callbacks of one stream never overlap and never follow its completion; bytes only reach the stream of their own connection; directions fed by one assembler satisfy the C09/C10 order oracle; both directions share one live entry (reassembly); every kept stream completed exactly once after a final flush.",
        note="Trusted: the vsync shim models Mutex/RWMutex/Pool faithfully except writer preference; sequential consistency. Data races are looked for by a separate free-running -race pass of the same scenarios (supplementary, not exhaustive)."),
    "C11": dict(engine="statex", category="model_checking", design_ref="DESIGN.md section 7 C11",
        technique="exhaustive enumeration of Assemble/Flush histories over several connections, directions, RST, age-flush cut-offs and page limits on both real assemblers (one binary each), with a lifecycle/buffering monitor reading private state through injected accessors",
        text="For tcpassembly and reassembly separately: every history of the stated length over three alphabets (one direction of a 4-byte stream with every segment, FIN, RST and four age-flush cut-offs; two connections x two directions of 2-byte streams with FlushAll in the middle; multi-page packets of 2-3 pages) followed by FlushAll, for every page-limit setting (and, for reassembly, stream behaviours KeepFrom on/off x accepts/declines removal). Monitor after every step: completion at most once, no data after it; page limits exceeded by at most the packet in hand; an age flush leaves no (half) connection waiting on data older than the cut-off and forces out nothing newer; after FlushAll: exactly one completion per stream, no connection left whose stream accepted removal, zero pages in use.",
        note="Trusted: the injected read-only accessors (pages used, connections, queued/saved pages, first-page timestamps). Oracle restricted to the clauses of the statement (DESIGN.md Corrections)."),
    "C09": dict(engine="statex", category="model_checking", design_ref="DESIGN.md section 7 C09",
        technique="exhaustive enumeration of segment/flush histories on the real reassembly.Assembler against a sender-stream reference model, for ISNs incl. wrap-around x page-limit x KeepFrom configurations",
        text="Every history of 5 events over {SYN, SYN+data, every data segment D[a,b) of a 4-byte stream with/without FIN, bare FIN, age flush} followed by FlushAll is executed on the real assembler for 5 [thorough 8] initial sequence numbers (half-space boundary, the 2^32 wrap inside the stream) x 3 [5] page-limit settings x 2 [4] KeepFrom behaviours of the stream; every ReassembledSG hand-over is compared with the sender model: exact new bytes at pos+skip, skips only over bytes that never arrived and only in a flush step or under a page limit, kept bytes presented again unchanged in front of the new data, nothing held back behind no gap, everything accounted for after FlushAll.",
        note="Trusted: the sender model (tcpmodel). Oracle applies to stream instances whose SYN was processed before any hand-over; kept bytes may be dropped when the next hand-over starts with a skip. One direction, 4-byte stream."),
    "C10": dict(engine="statex", category="model_checking", design_ref="DESIGN.md section 7 C10",
        technique="exhaustive enumeration of segment/flush histories on the real tcpassembly.Assembler against a sender-stream reference model, for every ISN (incl. wrap-around) x page-limit configuration",
        text="Every history of 5 [thorough 6] events over {SYN, SYN+data, every data segment D[a,b) of a 4-byte stream with/without FIN, bare FIN, age flush} followed by FlushAll is executed on the real assembler for 8 initial sequence numbers (all quarter boundaries of the wrap-safe comparison and the 2^32 wrap inside the stream) x 4 [6] page-limit settings; every hand-over is compared with the sender model: exact bytes at pos+skip, skips only over bytes that never arrived and only in a flush step or under a page limit, nothing held back behind no gap, everything accounted for after FlushAll.",
        note="Trusted: the sender model (tcpmodel, ~150 lines). Oracle applies to stream instances whose SYN was processed before any hand-over. Streams longer than 4 bytes / multi-page segments are covered by C11's multi-page family only."),
    "C18": dict(engine="statex", category="model_checking", design_ref="DESIGN.md section 7 C18",
        technique="exhaustive enumeration of operation sequences on the real SerializeBuffer against a deque reference model (all sequences to depth 5/6 unpruned + explicit-state BFS pruned on the structural state key)",
        text="All sequences of length 5 [thorough 6] over an 18-letter alphabet (Prepend/Append of 7 sizes, Clear, PushLayer, SerializeLayers of three marker layers, late writes into still-valid returned slices) x 6 initial buffers run on the real buffer next to a deque model; explicit-state BFS to depth 7 [9] on a reduced alphabet, pruned on (start,len,cap,prepended,appended,#layers,valid live slices) read through an injected accessor. After every operation: Bytes()/Layers() equal the model, returned slices are exact windows, Clear empties both.",
        note="Trusted: the deque model (~40 lines); pruning argument: buffer methods never read content bytes. Sizes beyond 17 and depths beyond the bound are not explored."),
    "C16": dict(engine="bubble", category="model_checking", design_ref="DESIGN.md section 7 C16",
        technique="stateless exhaustive exploration of the real PacketSource goroutine/channel/timer code inside testing/synctest bubbles over all data-source scripts x explorer action orders (grant, receive, clock tick, cancel, second call)",
        text="All data-source scripts of <=3 items [thorough 4] over {packet, truncated packet, timeout, transient error} ending in each terminal error, x 16 source/option configurations (copying / buffer-reusing source x Lazy x NoCopy x Pool), x every order of explorer actions at every quiescent point (grant the next read result, consumer receive, advance the fake clock, cancel the context, call PacketsCtx again) are executed on the implementation; plus the pull interface and ConcatFinitePacketDataSources over all scripts/splits, and a 1001-packet stalled-consumer run. Oracle per execution: delivered sequence = script packets in order, once, with their capture info and truncation flag, intact after later reads; channel closed and background goroutine gone after end of input or cancel; no read started after cancel; zero-copy+NoCopy refused; second call same channel, single reader.",
        note="Trusted: testing/synctest quiescence/virtual time; Go's random choice between a ready send and a ready ctx.Done is not controlled (both outcomes accepted); script length bound."),
    "C20": dict(engine="bubble", category="model_checking", design_ref="DESIGN.md section 7 C20",
        technique="stateless exhaustive exploration of the real ReaderStream inside testing/synctest bubbles: all delivery histories x consumer programs x actor start orders, deadlock observed by the runtime",
        text="All delivery histories (batches of 1-2 reassemblies with byte lengths {0,1,3} and Skip {0,2,-1}, up to 2 batches [thorough 3], then completion) x all consumer programs (up to 3 [4] reads of size 1/2/8, then drain-to-EOF / Close / double Close / read-after-end) x LossErrors x every order in which the explorer lets the two goroutines start their next call are executed on the implementation. Oracle on every execution: no panic, no deadlock/livelock, bytes read = prefix (after drain: all) of delivered bytes, one DataLost per gap at the right position, 0/EOF after the end.",
        note="Trusted: testing/synctest quiescence detection and its deadlock report; sequences longer than the bounds are not explored; data-race freedom is checked by the separate free-running -race pass, not by this exploration."),
    "C01": dict(engine="enum", category="exploration", design_ref="DESIGN.md section 7 C01",
        technique="bounded-exhaustive input x option-set enumeration of NewPacket + the full read-only accessor suite on the real code, error-layer contract observed through a transparent wrapper PacketBuilder",
        text="Every (first layer, input, option set) case of a finite, completely enumerated space (all strings <=1 byte and a 22-value length-2 grid [thorough: all <=2], constant fills, deviation<=1 neighbourhoods of per-type fixture seeds, every seed x every first layer; 16 option sets) is decoded with recovery on and every read-only accessor is run; panics, crashes (stack overflow, OOM) and stalls are attributed to one case by the worker progress marker; the error-layer contract (failed <=> ErrorLayer!=nil, last layer, exactly one failure layer) is evaluated on every case from the decoders' actual return values.",
        note="Trusted: Go runtime, RLIMIT_AS/120 s watchdog as the meaning of 'bounded time/memory', the wrapper PacketBuilder (self-checked for transparency on every non-pooled case). Inputs further than one deviation from a fixture are not covered."),
    "C19": dict(engine="enum", category="exploration", design_ref="DESIGN.md section 7 C19",
        technique="bounded-exhaustive input enumeration (all strings <=2 bytes, constant fills, deviation<=1 neighbourhoods of per-type seeds) of the real decoders in crash-attributing worker subprocesses",
        text="Every (first layer, input) case of a finite, completely enumerated space is executed through all three recovery-free entry points (DecodeFromBytes on fresh and re-used values, NewPacket with SkipDecodeRecovery eager/lazy x DSAD, DecodingLayerParser with IgnorePanic); any panic, fatal error, memory blow-up or hang is attributed to one case and keyed by panic site. Exploration level: exhaustive within the stated input bound, silent outside it.",
        note="Trusted: Go runtime panic/fatal-error reporting, RLIMIT_AS for memory blow-ups, the 120 s no-progress watchdog. Inputs needing >1 deviation from a fixture (thorough: 2 for core types) are not covered."),
}

PENDING = "check not built yet (building in the order given in DESIGN.md section 11); not claimed until its check exists and passes on the unchanged tree"

ENGINES = [
    {"name": "enum", "path": "harness/engine/enum", "kind_free_text": "bounded-exhaustive case enumerator over indexable case spaces, sharded over worker subprocesses with an mmap progress marker (crash/hang attribution)", "serves_properties": ["C01", "C02", "C05", "C06", "C07", "C08", "C13", "C14", "C15", "C17", "C19"]},
    {"name": "statex", "path": "harness/engine/statex", "kind_free_text": "explicit-state / stateless depth-bounded search over operation sequences on the real objects, with a reference model per property", "serves_properties": ["C03", "C04", "C09", "C10", "C11", "C18"]},
    {"name": "sched", "path": "harness/engine/sched", "kind_free_text": "cooperative preemption-bounded scheduler over a sync shim injected by go build -overlay; stateless DFS over schedules", "serves_properties": ["C12", "C04"]},
    {"name": "bubble", "path": "harness/engine/bubble", "kind_free_text": "quiescence-driven explorer inside testing/synctest bubbles for channel/timer code; stateless DFS over actor/environment choices", "serves_properties": ["C16", "C20"]},
]


def main():
    props = [json.loads(l) for l in open(os.path.join(ROOT, "properties.jsonl"))]
    checks, na = [], []
    for p in props:
        pid = p["id"]
        if pid in CHECKS:
            c = CHECKS[pid]
            checks.append({
                "property_id": pid,
                "quick_cmd": "bin/check %s quick" % pid,
                "thorough_cmd": "bin/check %s thorough" % pid,
                "evidence_file": "/verif/evidence/%s.json" % pid,
                "replay_cmd_template": "bin/check %s --replay {path}" % pid,
                "engine": c["engine"],
                "level_claimed": {"category": c["category"], "text": c["text"], "design_ref": c["design_ref"]},
                "level_note": c["note"],
                "technique": c["technique"],
            })
        else:
            na.append({"property_id": pid, "reason": PENDING})
    m = {
        "version": 1,
        "setup_cmd": "bin/setup",
        "hooks": {
            "guard": "verif",
            "enable": "no source hooks are committed to the repository: bin/check generates a `go build -overlay` (sync-import rewrite to the vsync shim, read-only private-state accessor files tagged `verif`) from the current working tree on every run and builds with `-tags verif -overlay /verif/.work/overlay.json`",
            "baseline_off_cmd": "cd /repo && go test -mod=mod -vet=off -count=1 -timeout 25m ./...",
            "source_commits": [],
            "add_only": True,
        },
        "engines": ENGINES,
        "checks": checks,
        "not_applicable": na,
        "notes": "All checks: `bin/check <id> quick|thorough`; evidence in /verif/evidence/<id>.json; known findings in /verif/known_findings.jsonl; see DESIGN.md.",
    }
    out = os.path.join(ROOT, "MANIFEST.json")
    json.dump(m, open(out, "w"), indent=1)
    open(out, "a").write("\n")
    try:
        import jsonschema
        jsonschema.validate(m, json.load(open("/root/.vp/MANIFEST.schema.json")))
        print("MANIFEST.json valid: %d checks, %d not_applicable" % (len(checks), len(na)))
    except ImportError:
        print("MANIFEST.json written (jsonschema not importable here; not validated)")


if __name__ == "__main__":
    main()
