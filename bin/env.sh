# source me. Resolves the Go toolchain the repository pins and sets the offline build env.
export VERIF_ROOT=${VERIF_ROOT:-/verif}
export VERIF_REPO=${VERIF_REPO:-/repo}
export VERIF_WORK=${VERIF_WORK:-$VERIF_ROOT/.work}
mkdir -p "$VERIF_WORK/bin"
_gover=$(awk '/^go [0-9]/{print $2; exit}' "$VERIF_REPO/go.mod")
_tc=/root/go/pkg/mod/golang.org/toolchain@v0.0.1-go${_gover}.linux-amd64
if [ ! -x "$_tc/bin/go" ]; then
  _tc=$(cd "$VERIF_REPO" && GOFLAGS=-mod=mod go env GOROOT 2>/dev/null)
fi
export GOROOT_VERIF=$_tc
export PATH=$_tc/bin:$PATH
export GOTOOLCHAIN=local GOFLAGS=-mod=mod GOPROXY=off GOSUMDB=off GONOSUMDB=* GONOSUMCHECK=1
export GOCACHE=${GOCACHE:-/root/.cache/go-build}
