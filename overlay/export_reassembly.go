//go:build verif

// Read-only accessors injected into package reassembly by `go build -overlay`.
package reassembly

// VerifPagesUsed returns the number of pages the assembler's page cache has handed out.
func VerifPagesUsed(a *Assembler) int { return a.pc.used }

// VerifConnCount returns the number of connections in the pool.
func VerifConnCount(p *StreamPool) int {
	p.mu.RLock()
	defer p.mu.RUnlock()
	return len(p.conns)
}

// VerifHalfPages returns, for every half connection in the pool, the number of queued
// (out-of-order) pages, of saved pages, and the seen time (unix nanos) of its first
// queued page (0 if none). A closed half reports 0/0/0: closeHalfConnection returns its
// pages to the page cache without clearing half.first, so the list head of a closed half
// is a stale pointer, not buffered data (nothing reads it again before reset).
func VerifHalfPages(p *StreamPool) (queued, saved []int, firstSeen []int64) {
	p.mu.RLock()
	defer p.mu.RUnlock()
	for _, c := range p.conns {
		for _, h := range []*halfconnection{&c.c2s, &c.s2c} {
			if h.closed {
				queued, saved, firstSeen = append(queued, 0), append(saved, 0), append(firstSeen, 0)
				continue
			}
			q, s := 0, 0
			for pg := h.first; pg != nil; pg = pg.next {
				q++
			}
			for pg := h.saved; pg != nil; pg = pg.next {
				s++
			}
			queued, saved = append(queued, q), append(saved, s)
			if h.first != nil {
				firstSeen = append(firstSeen, h.first.seen.UnixNano())
			} else {
				firstSeen = append(firstSeen, 0)
			}
		}
	}
	return
}
