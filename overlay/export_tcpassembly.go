//go:build verif

// Read-only accessors injected into package tcpassembly by `go build -overlay`.
package tcpassembly

// VerifPagesUsed returns the number of pages the assembler's page cache has handed out.
func VerifPagesUsed(a *Assembler) int { return a.pc.used }

// VerifConnCount returns the number of connections in the pool.
func VerifConnCount(p *StreamPool) int {
	p.mu.RLock()
	defer p.mu.RUnlock()
	return len(p.conns)
}

// VerifConnPages returns, for every connection in the pool, its queued page count
// and the Seen timestamps (unix nanos) of its first queued page (0 if none).
func VerifConnPages(p *StreamPool) (pages []int, firstSeen []int64) {
	p.mu.RLock()
	defer p.mu.RUnlock()
	for _, c := range p.conns {
		n := 0
		for pg := c.first; pg != nil; pg = pg.next {
			n++
		}
		pages = append(pages, n)
		if c.first != nil {
			firstSeen = append(firstSeen, c.first.Seen.UnixNano())
		} else {
			firstSeen = append(firstSeen, 0)
		}
	}
	return
}
