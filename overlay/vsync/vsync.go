// Package vsync is the `sync` shim and cooperative scheduler used by the
// schedule explorer. It is injected as a virtual package
// (github.com/gopacket/gopacket/zzverif/vsync) by `go build -overlay`; the
// repository files that import "sync" are compiled with that import rewritten
// to this package (bin/build, cmd/mkoverlay). Nothing of it is committed to the
// repository.
//
// Model: exactly one controlled thread runs at a time. Before every
// synchronisation operation (Mutex/RWMutex lock and unlock, Pool Get/Put, and
// explicit Yield points placed in harness callbacks) the running thread hands
// control to the scheduler, which picks the next thread among those whose
// pending operation is enabled. The scheduler tracks lock state itself, so
// enabledness is exact and no thread ever blocks on a real lock.
package vsync

import (
	"fmt"
	"runtime/debug"
	"sync"
)

type WaitGroup = sync.WaitGroup
type Once = sync.Once

type opKind int

const (
	opStart opKind = iota
	opLock
	opUnlock
	opRLock
	opRUnlock
	opPoolGet
	opPoolPut
	opYield
	opWait
)

var opNames = [...]string{"start", "Lock", "Unlock", "RLock", "RUnlock", "Pool.Get", "Pool.Put", "Yield", "WaitFor"}

type op struct {
	kind opKind
	m    *Mutex
	rw   *RWMutex
	tag  string
	cond func() bool
}

type thread struct {
	id      int
	gate    chan struct{}
	pending op
	done    bool
	panicV  any
	stack   []byte
}

// Chooser is implemented by the harness's DFS enumerator.
type Chooser interface {
	ChooseCost(n int, cost []int) int
}

type exec struct {
	threads []*thread
	yield   chan *thread
	running *thread
	ch      Chooser
}

var cur *exec // the execution in progress; nil outside an exploration

// SpinLimit is the number of consecutive steps after which a running thread is
// considered to be spinning when other threads are enabled.
var SpinLimit = 60

// Result of one controlled execution.
type Result struct {
	Steps       int
	Deadlock    bool
	Livelock    bool
	Blocked     []string // pending operations of the threads that could not finish
	PanicThread int
	Panic       any
	PanicStack  []byte
	Trace       []int // thread id run at each step
}

func (t *thread) enabled() bool {
	if t.done {
		return false
	}
	switch t.pending.kind {
	case opLock:
		if t.pending.m != nil {
			return !t.pending.m.held
		}
		return !t.pending.rw.writer && t.pending.rw.readers == 0
	case opRLock:
		return !t.pending.rw.writer
	case opWait:
		return t.pending.cond()
	}
	return true
}

// Run executes the thread bodies under the scheduler. horizon bounds the number
// of scheduling steps (livelock detection).
func Run(ch Chooser, horizon int, bodies []func()) *Result {
	e := &exec{yield: make(chan *thread), ch: ch}
	if cur != nil {
		panic("vsync: nested Run")
	}
	cur = e
	defer func() { cur = nil }()
	res := &Result{PanicThread: -1}
	for i, b := range bodies {
		t := &thread{id: i, gate: make(chan struct{}), pending: op{kind: opStart}}
		e.threads = append(e.threads, t)
		b := b
		go func() {
			<-t.gate
			defer func() {
				if r := recover(); r != nil {
					t.panicV, t.stack = r, debug.Stack()
				}
				t.done = true
				e.yield <- t
			}()
			b()
		}()
	}
	consecutive := 0
	for {
		var en []*thread
		// fairness: a thread that has taken SpinLimit consecutive steps while others are
		// enabled is treated as spinning (a retry-until-success loop): it goes last and
		// switching away from it is free. This keeps executions finite without hiding
		// schedules (every forced switch is a legal schedule).
		spinning := e.running != nil && consecutive >= SpinLimit
		if e.running != nil && e.running.enabled() && !spinning {
			en = append(en, e.running)
		}
		for _, t := range e.threads {
			if t != e.running && t.enabled() {
				en = append(en, t)
			}
		}
		if spinning && e.running.enabled() {
			en = append(en, e.running)
		}
		if len(en) == 0 {
			for _, t := range e.threads {
				if !t.done {
					res.Deadlock = true
					res.Blocked = append(res.Blocked, fmt.Sprintf("T%d at %s %s", t.id, opNames[t.pending.kind], t.pending.tag))
				}
			}
			return res
		}
		if res.Steps >= horizon {
			res.Livelock = true
			return res
		}
		var cost []int
		if len(en) > 1 {
			cost = make([]int, len(en))
			if e.running != nil && en[0] == e.running && !spinning {
				// switching away from a thread that could go on is a preemption
				for i := 1; i < len(en); i++ {
					cost[i] = 1
				}
			}
		}
		k := 0
		if len(en) > 1 {
			k = ch.ChooseCost(len(en), cost)
		}
		t := en[k]
		// the pending operation takes effect when the thread is resumed
		switch t.pending.kind {
		case opLock:
			if t.pending.m != nil {
				t.pending.m.held = true
			} else {
				t.pending.rw.writer = true
			}
		case opRLock:
			t.pending.rw.readers++
		}
		if t == e.running {
			consecutive++
		} else {
			consecutive = 0
		}
		e.running = t
		res.Steps++
		res.Trace = append(res.Trace, t.id)
		t.gate <- struct{}{}
		y := <-e.yield
		if y != t {
			panic("vsync: a thread other than the running one reached a scheduling point (uncontrolled goroutine?)")
		}
		if t.done && t.panicV != nil {
			res.Panic, res.PanicStack, res.PanicThread = t.panicV, t.stack, t.id
			return res
		}
	}
}

// point hands control to the scheduler before operation o of the running thread.
func point(o op) bool {
	e := cur
	if e == nil || e.running == nil {
		return false
	}
	t := e.running
	t.pending = o
	e.yield <- t
	<-t.gate
	return true
}

// Yield is an explicit scheduling point for harness-owned code (stream callbacks).
func Yield(tag string) { point(op{kind: opYield, tag: tag}) }

// WaitFor blocks the running thread until cond holds: harness-owned code that has to wait
// for something only another thread can bring about (a stream factory waiting for a free
// slot). The thread is not enabled while cond is false, so waiting while holding a lock that
// the other threads need shows up as a deadlock. cond is evaluated by the scheduler while
// every thread is parked. Outside an exploration it returns at once.
func WaitFor(tag string, cond func() bool) {
	point(op{kind: opWait, tag: tag, cond: cond})
}

// CurrentThread is the id of the running controlled thread (-1 outside an exploration).
func CurrentThread() int {
	if cur == nil || cur.running == nil {
		return -1
	}
	return cur.running.id
}

// Exploring reports whether a controlled execution is in progress.
func Exploring() bool { return cur != nil }

// ---- Mutex -----------------------------------------------------------------------

type Mutex struct {
	held bool
}

func (m *Mutex) Lock() {
	if point(op{kind: opLock, m: m}) {
		return // the scheduler marked the mutex held when it resumed us
	}
	if m.held {
		panic("vsync: Mutex.Lock would block outside a controlled execution")
	}
	m.held = true
}

func (m *Mutex) Unlock() {
	point(op{kind: opUnlock, m: m})
	if !m.held {
		panic("sync: unlock of unlocked mutex")
	}
	m.held = false
}

func (m *Mutex) TryLock() bool {
	if m.held {
		return false
	}
	m.held = true
	return true
}

// ---- RWMutex ---------------------------------------------------------------------

type RWMutex struct {
	writer  bool
	readers int
}

func (rw *RWMutex) Lock() {
	if point(op{kind: opLock, rw: rw}) {
		return
	}
	if rw.writer || rw.readers > 0 {
		panic("vsync: RWMutex.Lock would block outside a controlled execution")
	}
	rw.writer = true
}

func (rw *RWMutex) Unlock() {
	point(op{kind: opUnlock, rw: rw})
	if !rw.writer {
		panic("sync: Unlock of unlocked RWMutex")
	}
	rw.writer = false
}

func (rw *RWMutex) RLock() {
	if point(op{kind: opRLock, rw: rw}) {
		return
	}
	if rw.writer {
		panic("vsync: RWMutex.RLock would block outside a controlled execution")
	}
	rw.readers++
}

func (rw *RWMutex) RUnlock() {
	point(op{kind: opRUnlock, rw: rw})
	if rw.readers <= 0 {
		panic("sync: RUnlock of unlocked RWMutex")
	}
	rw.readers--
}

// ---- Pool ------------------------------------------------------------------------

// PoolChoice, when set, makes Pool.Get an explorer choice among every item
// previously Put and a fresh one (a superset of what sync.Pool may do);
// otherwise the pool is LIFO.
var PoolChoice bool

type Pool struct {
	New   func() any
	items []any
	mu    sync.Mutex // guards items when the shim is used by free-running goroutines (no exploration)
}

// OnPoolGet, when set, is called with every value a Pool hands out (harness
// hook: poisoning of recycled blocks, bookkeeping). SeqChooser is consulted for
// PoolChoice outside a controlled execution (sequential history exploration).
var OnPoolGet func(x any, fresh bool)
var SeqChooser Chooser

func (p *Pool) Get() any {
	point(op{kind: opPoolGet})
	x, fresh := p.get()
	if OnPoolGet != nil {
		OnPoolGet(x, fresh)
	}
	point(op{kind: opYield, tag: "after Pool.Get"})
	return x
}

func (p *Pool) get() (any, bool) {
	p.mu.Lock()
	defer p.mu.Unlock()
	n := len(p.items)
	if n > 0 {
		k := n - 1
		if PoolChoice {
			var ch Chooser
			if cur != nil {
				ch = cur.ch
			} else {
				ch = SeqChooser
			}
			if ch != nil {
				c := ch.ChooseCost(n+1, nil)
				if c == n {
					if p.New != nil {
						return p.New(), true
					}
					return nil, true
				}
				k = c
			}
		}
		x := p.items[k]
		p.items = append(p.items[:k], p.items[k+1:]...)
		return x, false
	}
	if p.New != nil {
		return p.New(), true
	}
	return nil, true
}

func (p *Pool) Put(x any) {
	point(op{kind: opPoolPut})
	p.mu.Lock()
	p.items = append(p.items, x)
	p.mu.Unlock()
	// a second point after the operation: code that touches the value after
	// handing it back (use after Put) must be interleavable with other threads
	point(op{kind: opYield, tag: "after Pool.Put"})
}

// Reset empties the pool (between executions).
func (p *Pool) Reset() { p.mu.Lock(); p.items = nil; p.mu.Unlock() }

// Len returns the number of pooled items.
func (p *Pool) Len() int { p.mu.Lock(); defer p.mu.Unlock(); return len(p.items) }
