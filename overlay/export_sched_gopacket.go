//go:build verif

// Accessors that only exist in builds with the vsync shim (sched overlay).
package gopacket

// VerifResetPacketPool empties the packet block pool (between executions).
func VerifResetPacketPool() { poolPackedPool.Reset() }

// VerifPacketPoolLen returns the number of blocks currently in the pool.
func VerifPacketPoolLen() int { return poolPackedPool.Len() }
