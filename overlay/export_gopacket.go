//go:build verif

// Read-only accessors injected into package gopacket by `go build -overlay`
// (never committed to the repository). They only read private state.
package gopacket

import (
	"reflect"
	"unsafe"
)

// VerifSerializeBufferState exposes the private fields of the default
// SerializeBuffer implementation.
func VerifSerializeBufferState(b SerializeBuffer) (ok bool, dataPtr unsafe.Pointer, start, length, capacity, prepended, appended, nlayers int) {
	w, isw := b.(*serializeBuffer)
	if !isw {
		return false, nil, 0, 0, 0, 0, 0, 0
	}
	return true, unsafe.Pointer(unsafe.SliceData(w.data)), w.start, len(w.data), cap(w.data), w.prepended, w.appended, len(w.layers)
}

// VerifLazyState exposes how far a lazy packet has been decoded.
func VerifLazyState(p Packet) (isLazy bool, numLayers int, hasNext bool, link, network, transport, application, failure, truncated bool) {
	if pp, ok := p.(*pooledPacket); ok {
		p = pp.Packet
	}
	lp, ok := p.(*lazyPacket)
	if !ok {
		return false, 0, false, false, false, false, false, false, false
	}
	return true, len(lp.layers), lp.next != nil, lp.link != nil, lp.network != nil, lp.transport != nil, lp.application != nil, lp.failure != nil, lp.metadata.Truncated
}

// VerifLazyStep drives exactly one decode step of a lazy packet (it calls the
// packet's own decodeNextLayer, nothing else) and reports whether a step was
// pending. Used by the C03 harness to read the step-by-step shape of a decode.
func VerifLazyStep(p Packet) bool {
	if pp, ok := p.(*pooledPacket); ok {
		p = pp.Packet
	}
	lp, ok := p.(*lazyPacket)
	if !ok || lp.next == nil {
		return false
	}
	lp.decodeNextLayer()
	return true
}

// VerifPooledBlock returns the pool block backing a pooled packet, or nil. The private field
// is looked up by reflection so that a change that restructures pooledPacket still builds (the
// harness then falls back to the packet's data pointer).
func VerifPooledBlock(p Packet) *[]byte {
	v := reflect.ValueOf(p)
	if v.Kind() == reflect.Ptr {
		v = v.Elem()
	}
	if v.Kind() != reflect.Struct || v.Type().Name() != "pooledPacket" {
		return nil
	}
	f := v.FieldByName("origData")
	if !f.IsValid() || f.Kind() != reflect.Ptr || f.IsNil() {
		return nil
	}
	if b, ok := reflect.NewAt(f.Type(), unsafe.Pointer(addrOf(v, f))).Elem().Interface().(*[]byte); ok {
		return b
	}
	return nil
}

// addrOf returns the address of field f of struct value v (v may be unaddressable: it is copied).
func addrOf(v, f reflect.Value) uintptr {
	if f.CanAddr() {
		return f.UnsafeAddr()
	}
	c := reflect.New(v.Type()).Elem()
	c.Set(v)
	for i := 0; i < v.NumField(); i++ {
		if v.Type().Field(i).Name == "origData" {
			return c.Field(i).UnsafeAddr()
		}
	}
	return 0
}
