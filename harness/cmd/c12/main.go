// C12 consists of one binary per assembler package (both built with the vsync shim).
package main

import "verif/engine/multi"

func main() { multi.Run("C12", "model_checking", []string{"c12t", "c12r"}) }
