// C09: reassembly delivers TCP bytes in order, exactly once, gaps announced;
// kept bytes are presented again in front of the next new data.
package main

import (
	"fmt"
	"os"
	"runtime"
	"runtime/debug"
	"runtime/pprof"
	"sync"
	"time"

	"github.com/gopacket/gopacket"
	"github.com/gopacket/gopacket/layers"
	"github.com/gopacket/gopacket/reassembly"

	"verif/engine/report"
	"verif/engine/statex"
	tm "verif/engine/tcpmodel"
)

type config struct {
	isn            uint32
	perConn, total int
	keep           int // 0 never, 1 always from 0, 2 always the last byte, 3 alternate 0 / last byte, 4 always from offset 1, 5 always from the middle
}

var keepNames = []string{"never", "from-0", "last-byte", "alternate", "from-1", "middle"}

func (c config) String() string {
	return fmt.Sprintf("isn=%d maxPerConn=%d maxTotal=%d keep=%s", c.isn, c.perConn, c.total, keepNames[c.keep])
}

type hist struct {
	cur   tm.Event
	isSeg bool
	dir   *tm.Dir
	insts []*tm.Inst
	ctx   tm.StepCtx
	viol  string
	what  string
	step  int
	keep  int
	calls int
}

type stream struct {
	h    *harness
	hs   *hist
	inst *tm.Inst
}

func (s *stream) Accept(tcp *layers.TCP, ci gopacket.CaptureInfo, dir reassembly.TCPFlowDirection, nextSeq reassembly.Sequence, start *bool, ac reassembly.AssemblerContext) bool {
	return true
}

func (s *stream) ReassembledSG(sg reassembly.ScatterGather, ac reassembly.AssemblerContext) {
	if s.hs != s.h.cur {
		s.h.stale = true
		return
	}
	hs := s.hs
	l, saved := sg.Lengths()
	all := sg.Fetch(l)
	_, start, end, skip := sg.Info()
	fail := func(k, w string) {
		if hs.viol == "" {
			hs.viol, hs.what = k, fmt.Sprintf("step %d: %s", hs.step, w)
		}
	}
	if saved < 0 || saved > l || len(all) != l {
		fail("sg-lengths", fmt.Sprintf("Lengths()=(%d,%d) Fetch gave %d bytes", l, saved, len(all)))
		return
	}
	// a shorter Fetch returns a prefix of the available bytes (all lengths for short hand-overs;
	// around the saved/new boundary, the middle and the ends for long ones)
	whole := append([]byte(nil), all...)
	var ks []int
	if l <= 8 {
		for k := 0; k <= l; k++ {
			ks = append(ks, k)
		}
	} else {
		ks = []int{0, 1, saved - 1, saved, saved + 1, l / 2, 1899, 1900, 1901, l - 1}
	}
	for _, k := range ks {
		if k < 0 || k > l {
			continue
		}
		if part := sg.Fetch(k); len(part) != k || string(part) != string(whole[:k]) {
			fail("fetch-not-a-prefix", fmt.Sprintf("Fetch(%d) of %d available bytes (%d saved) returned %d bytes that are not the first %d of Fetch(%d)", k, l, saved, len(part), k, l))
			break
		}
	}
	all = whole
	if s.inst == hs.insts[len(hs.insts)-1] {
		k, w := s.inst.Deliver(hs.dir, tm.Delivery{Skip: skip, Bytes: all[saved:], Start: start, End: end, Saved: all[:saved], HasSaved: true, SavedMayDropOnSkip: true}, hs.ctx)
		if k != "" {
			fail(k, w)
		}
	}
	hs.calls++
	off := -1
	switch hs.keep {
	case 1:
		off = 0
	case 2:
		off = l - 1
	case 3:
		if hs.calls%2 == 1 {
			off = 0
		} else {
			off = l - 1
		}
	case 4:
		off = 1
	case 5:
		off = l / 2
	}
	if off >= 0 && off < l {
		sg.KeepFrom(off)
		s.inst.Keep(all[off:])
	} else {
		s.inst.Keep(nil)
	}
}

func (s *stream) ReassemblyComplete(ac reassembly.AssemblerContext) bool {
	s.inst.Completed++
	return true
}

type harness struct {
	t0     time.Time // start time of the current history: time never goes backwards on a recycled instance
	pool   *reassembly.StreamPool
	asm    *reassembly.Assembler
	cur    *hist
	ctr    uint32
	stale  bool
	resets int64
	tcp    layers.TCP
	n      int
}

func (h *harness) New(netFlow, tcpFlow gopacket.Flow, tcp *layers.TCP, ac reassembly.AssemblerContext) reassembly.Stream {
	in := &tm.Inst{}
	h.cur.insts = append(h.cur.insts, in)
	h.cur.dir = tm.NewDir(h.n)
	if h.cur.isSeg {
		h.cur.dir.Arrive(h.cur.cur)
	}
	return &stream{h: h, hs: h.cur, inst: in}
}

func (h *harness) reset() {
	h.pool = reassembly.NewStreamPool(h)
	h.asm = reassembly.NewAssembler(h.pool)
	h.stale = false
}

type actx struct{ ci gopacket.CaptureInfo }

func (a *actx) GetCaptureInfo() gopacket.CaptureInfo { return a.ci }

var epoch = time.Unix(1_000_000, 0)

func (h *harness) run(cfg config, alpha []tm.Event, seq []int) (hs *hist) {
	hs = &hist{dir: tm.NewDir(h.n), keep: cfg.keep}
	h.cur = hs
	if h.t0.IsZero() {
		h.t0 = epoch
	}
	h.t0 = h.t0.Add(time.Duration(len(seq)+3) * time.Second)
	t0 := h.t0
	h.asm.MaxBufferedPagesPerConnection = cfg.perConn
	h.asm.MaxBufferedPagesTotal = cfg.total
	h.ctr++
	var ip [4]byte
	ip[0], ip[1], ip[2], ip[3] = byte(h.ctr>>24), byte(h.ctr>>16), byte(h.ctr>>8), byte(h.ctr)
	netFlow := gopacket.NewFlow(layers.EndpointIPv4, ip[:], []byte{10, 0, 0, 1})
	limited := cfg.perConn > 0 || cfg.total > 0
	defer func() {
		if r := recover(); r != nil {
			k, site := report.PanicKey(r, debug.Stack())
			hs.viol, hs.what = k, fmt.Sprintf("panic %v at %s (step %d)", r, site, hs.step)
			h.reset()
		}
	}()
	for i, li := range seq {
		e := alpha[li]
		hs.step = i
		ts := t0.Add(time.Duration(i) * time.Second)
		hs.ctx = tm.StepCtx{FlushStep: e.K == tm.FLUSHOLD, Limited: limited}
		hs.cur, hs.isSeg = e, e.K != tm.FLUSHOLD
		if e.K == tm.FLUSHOLD {
			h.asm.FlushCloseOlderThan(ts.Add(time.Second))
			continue
		}
		hs.dir.Arrive(e)
		sg := e.Segment(cfg.isn, h.n)
		h.tcp = layers.TCP{SrcPort: 1, DstPort: 2, Seq: sg.Seq, SYN: sg.SYN, FIN: sg.FIN, RST: sg.RST}
		h.tcp.Payload = sg.Payload
		h.tcp.SetInternalPortsForTesting()
		h.asm.AssembleWithContext(netFlow, &h.tcp, &actx{gopacket.CaptureInfo{Timestamp: ts}})
		if len(hs.insts) > 0 && hs.viol == "" {
			if k, w := hs.insts[len(hs.insts)-1].NotHeldBack(hs.dir); k != "" {
				hs.viol, hs.what = k, fmt.Sprintf("after step %d (%v): %s", i, e, w)
			}
		}
	}
	hs.step = len(seq)
	hs.isSeg = false
	hs.ctx = tm.StepCtx{FlushStep: true, Limited: limited}
	h.asm.FlushAll()
	if len(hs.insts) > 0 && hs.viol == "" {
		if k, w := hs.insts[len(hs.insts)-1].AllAccounted(hs.dir); k != "" {
			hs.viol, hs.what = k, "after FlushAll: "+w
		}
	}
	if reassembly.VerifConnCount(h.pool) != 0 || h.stale {
		h.resets++
		h.reset() // leaks are C11's business; here the recycled instance is simply replaced
	} else if reassembly.VerifPagesUsed(h.asm) != 0 {
		// pages still counted as used (kept pages are not returned at close: C11): a new
		// assembler on the same, empty pool starts from a zero page count again
		h.asm = reassembly.NewAssembler(h.pool)
	}
	return hs
}

// cutsOf is set while a cut-point family is explored (nil: the full alphabet of a short stream)
var cutsOf []int

func describe(cfg config, alpha []tm.Event, seq []int, n int) map[string]any {
	var ev []string
	for _, i := range seq {
		ev = append(ev, alpha[i].String())
	}
	return map[string]any{"n": n, "cuts": cutsOf, "isn": cfg.isn, "max_pages_per_conn": cfg.perConn, "max_pages_total": cfg.total, "keep": cfg.keep, "keep_name": keepNames[cfg.keep], "events": ev, "seq": append([]int(nil), seq...)}
}

func main() {
	r := report.New("C09", "model_checking")
	n, depth := 4, 5
	// quick: 5 ISNs (0, the half-space boundary, two ISNs putting the wrap inside the stream,
	// 2^32-1) x 3 limit settings x 2 keep behaviours; thorough: the full grid
	isns := []uint32{0, 1<<31 - 3, uint32(uint64(1)<<32 - uint64(n) - 3), 1<<32 - 3, 1<<32 - 1}
	limits := [][2]int{{0, 0}, {2, 0}, {0, 2}, {0, 3}}
	keeps := []int{0, 3, 4}
	if r.Thorough() {
		isns = tm.ISNs(n)
		limits = [][2]int{{0, 0}, {1, 0}, {2, 0}, {0, 2}, {1, 2}, {0, 3}}
		keeps = []int{0, 1, 2, 3, 4, 5}
	}
	alpha := tm.Alphabet(n, true, false)
	if rp := os.Getenv("VERIF_REPLAY"); rp != "" {
		var f struct {
			Replay struct {
				N               int    `json:"n"`
				Isn             uint32 `json:"isn"`
				MaxPagesPerConn int    `json:"max_pages_per_conn"`
				MaxPagesTotal   int    `json:"max_pages_total"`
				Keep            int    `json:"keep"`
				Seq             []int  `json:"seq"`
				Cuts            []int  `json:"cuts"`
			} `json:"replay"`
		}
		report.ReadJSON(rp, &f)
		if len(f.Replay.Cuts) > 0 {
			alpha = tm.AlphabetCuts(f.Replay.Cuts, true, false)
			cutsOf = f.Replay.Cuts
		}
		h := &harness{n: f.Replay.N}
		h.reset()
		cfg := config{f.Replay.Isn, f.Replay.MaxPagesPerConn, f.Replay.MaxPagesTotal, f.Replay.Keep}
		fmt.Println("replaying", describe(cfg, alpha, f.Replay.Seq, f.Replay.N))
		hs := h.run(cfg, alpha, f.Replay.Seq)
		if hs.viol != "" {
			fmt.Println("REPRODUCED", hs.viol, hs.what)
			os.Exit(1)
		}
		fmt.Println("no violation reproduced")
		os.Exit(0)
	}
	if pf := os.Getenv("VERIF_PROF"); pf != "" {
		f, _ := os.Create(pf)
		pprof.StartCPUProfile(f)
		defer pprof.StopCPUProfile()
	}
	var curCfg config
	var hangLocals []*report.Local
	workers := runtime.NumCPU()
	var total, transitions, rs int64
	var mu sync.Mutex
	outcomes := map[string]struct{}{}
	var samples []any
	locals := make([]*report.Local, workers)
	for i := range locals {
		locals[i] = report.NewLocal()
	}
	hangLocals = locals
	deliveries := make([]int64, workers)
	strict := make([]int64, workers)
	type family struct {
		name   string
		cuts   []int // nil: every segment of an n-byte stream
		n      int
		isns   []uint32
		limits [][2]int
		keeps  []int
		depth  int
	}
	// multi-page family: segments spanning 2 [3] assembler pages (1900 bytes each), with room
	// for a gap in front, a queued segment behind and a segment in between
	mpCuts := []int{0, 100, 2100, 2200, 2300}
	mpIsns := []uint32{1000, uint32(uint64(1)<<32 - 1200)}
	mpLimits := [][2]int{{0, 0}, {3, 0}}
	mpKeeps := []int{0, 3, 5}
	if r.Thorough() {
		mpCuts = []int{0, 100, 2100, 4100, 4200, 4300} // segments of up to 3 pages (6 cut points keep the thorough tier inside its time budget with 6 KeepFrom behaviours)
		mpIsns = append(mpIsns, 1<<31-1200)
		mpLimits = append(mpLimits, [2]int{2, 0}, [2]int{0, 4})
		mpKeeps = []int{0, 1, 2, 3, 4, 5}
	}
	families := []family{
		{"short", nil, n, isns, limits, keeps, depth},
		{"multipage", mpCuts, mpCuts[len(mpCuts)-1], mpIsns, mpLimits, mpKeeps, 5},
	}
	var famNotes []string
	for _, fam := range families {
		fam := fam
		n := fam.n
		alpha := alpha
		cutsOf = fam.cuts
		if fam.cuts != nil {
			alpha = tm.AlphabetCuts(fam.cuts, true, false)
		}
		famNotes = append(famNotes, fmt.Sprintf("%s: stream of %d bytes, cut points %v, %d letters %v, histories of %d events, ISNs %v, page limits %v, keep behaviours %v", fam.name, n, fam.cuts, len(alpha), alpha, fam.depth, fam.isns, fam.limits, fam.keeps))
		hs := make([]*harness, workers)
		for i := range hs {
			hs[i] = &harness{n: n}
			hs[i].reset()
		}
		statex.OnHang = func(seq []int) {
			r.Violation("hang|a history does not terminate", fmt.Sprintf("no progress for %v on one history; %s", statex.HangAfter, curCfg), 0, describe(curCfg, alpha, seq, n))
			for _, l := range hangLocals {
				r.MergeLocal(l)
			}
			r.Exhaustive = false
			r.Coverage["states"], r.Coverage["transitions"], r.Coverage["traces_validated_against_impl"] = 1, 1, 0
			r.Coverage["samples"] = []any{describe(curCfg, alpha, seq, n)}
			r.Finish()
		}
		for _, isn := range fam.isns {
			for _, lim := range fam.limits {
				for _, keep := range fam.keeps {
					cfg := config{isn, lim[0], lim[1], keep}
					curCfg = cfg
					local := make([]map[string]struct{}, workers)
					for i := range local {
						local[i] = map[string]struct{}{}
					}
					cnt, complete := statex.Sequences(len(alpha), fam.depth, workers, r.Expired, func(w int, seq []int) {
						h := hs[w].run(cfg, alpha, seq)
						if len(h.insts) > 0 {
							in := h.insts[0]
							deliveries[w] += int64(in.Deliveries)
							if in.Strict {
								strict[w]++
							}
							local[w][fmt.Sprintf("%s/%d/%d/%v/%v/%d", fam.name, in.Pos, in.Deliveries, in.Strict, in.Ended, len(h.insts))] = struct{}{}
						}
						if h.viol != "" {
							key := fmt.Sprintf("c09|%s|isn=%s|limit=%v|keep=%v", h.viol, tm.ISNClass(cfg.isn, n), lim[0]+lim[1] > 0, keep != 0)
							if fam.cuts != nil {
								key += "|" + fam.name
							}
							locals[w].Add(key, int64(len(seq))*100+int64(keep), func() (string, any) {
								d := describe(cfg, alpha, seq, n)
								return h.what + "; " + cfg.String() + fmt.Sprintf("; events %v", d["events"]), d
							})
						}
					})
					total += cnt
					transitions += cnt * int64(fam.depth+1)
					if !complete {
						r.Exhaustive = false
					}
					mu.Lock()
					for _, l := range local {
						for k := range l {
							outcomes[k] = struct{}{}
						}
					}
					mu.Unlock()
				}
			}
			samples = append(samples, describe(config{isn, 2, 0, 1}, alpha, []int{0, 5, 2, 9, 7, 1}[:fam.depth], n))
		}
		for _, h := range hs {
			rs += h.resets
		}
	}
	cutsOf = nil
	for _, l := range locals {
		r.MergeLocal(l)
	}
	var dsum, ssum int64
	for i := range deliveries {
		dsum += deliveries[i]
		ssum += strict[i]
	}
	r.Coverage["instance_resets"] = rs
	r.Coverage["states"] = total
	r.Coverage["transitions"] = transitions
	r.Coverage["traces_validated_against_impl"] = total
	r.Coverage["histories"] = total
	r.Coverage["history_length"] = depth
	r.Coverage["stream_bytes"] = n
	r.Coverage["families"] = famNotes
	r.Coverage["deliveries_checked"] = dsum
	r.Coverage["histories_with_strict_first_instance"] = ssum
	r.Coverage["distinct_outcomes"] = len(outcomes)
	r.Coverage["samples"] = samples
	r.Coverage["explanation"] = "stateless search as in C10, on the real reassembly.Assembler, with the stream's KeepFrom behaviour as an additional configuration; the saved bytes presented at each hand-over are compared with what the stream asked to keep at the previous one."
	r.Assumptions = []string{"oracle applies to stream instances whose SYN was processed before any hand-over", "kept bytes may be dropped (not presented) when the next hand-over starts with a skip: they cannot be 'directly in front' of data behind a gap", "stream of 4 distinct bytes; one direction"}
	pprof.StopCPUProfile()
	r.Finish()
}
