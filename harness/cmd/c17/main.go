// C17: flows and endpoints are faithful, hashable, direction-symmetric values.
package main

import (
	"bytes"
	"fmt"
	"math"
	"os"
	"reflect"
	"unsafe"

	"github.com/gopacket/gopacket"
	"github.com/gopacket/gopacket/layers"

	"verif/engine/corpus"
	"verif/engine/dspace"
	"verif/engine/enum"
	"verif/engine/report"
)

// ---- part 1: algebra over small endpoint sets --------------------------------------

func addrs() [][]byte {
	var out [][]byte
	vals := []byte{0, 1, 0xff}
	var rec func(p []byte, l int)
	rec = func(p []byte, l int) {
		if len(p) == l {
			out = append(out, append([]byte(nil), p...))
			return
		}
		for _, v := range vals {
			rec(append(p, v), l)
		}
	}
	for l := 0; l <= 3; l++ {
		rec(nil, l)
	}
	for _, l := range []int{4, 6, 15, 16} {
		out = append(out, make([]byte, l))
		for i := 0; i < l; i++ {
			for _, v := range []byte{1, 0xff} {
				b := make([]byte, l)
				b[i] = v
				out = append(out, b)
			}
		}
	}
	return out
}

var types = []gopacket.EndpointType{gopacket.EndpointInvalid, layers.EndpointMAC, layers.EndpointIPv4, layers.EndpointTCPPort, gopacket.EndpointType(4242)}

func algebra(r *report.Run) (evals int64, distinct int) {
	as := addrs()
	fail := func(k, w string, ex any) { r.Violation("c17|"+k, w, 0, ex) }
	type ep struct {
		e gopacket.Endpoint
		t gopacket.EndpointType
		b []byte
	}
	var eps []ep
	// endpoint types are plain int64 numbers: the extremes too (with a handful of addresses each,
	// enough for every order/equality clause to be exercised across types far apart)
	few := [][]byte{{}, {0}, {1}, {0, 1}, {0xff}, {1, 0, 0, 0}}
	extreme := []gopacket.EndpointType{math.MaxInt64, math.MinInt64, -2, math.MaxInt64 - 1, 1 << 62}
	for ti, t := range append(append([]gopacket.EndpointType(nil), types...), extreme...) {
		set := as
		if ti >= len(types) {
			set = few
		}
		for _, a := range set {
			in := append([]byte(nil), a...)
			e := gopacket.NewEndpoint(t, in)
			for i := range in {
				in[i] ^= 0xa5 // the caller's slice is not retained
			}
			if !bytes.Equal(e.Raw(), a) || e.EndpointType() != t {
				fail("endpoint-not-faithful", fmt.Sprintf("NewEndpoint(%v,%x) reads back (%v,%x)", t, a, e.EndpointType(), e.Raw()), map[string]any{"type": int64(t), "addr": fmt.Sprintf("%x", a)})
			}
			eps = append(eps, ep{e, t, a})
		}
	}
	distinct = len(eps)
	// rejection above 16 bytes
	func() {
		defer func() {
			if recover() == nil {
				fail("oversize-endpoint-accepted", "NewEndpoint accepted a 17-byte address", nil)
			}
		}()
		gopacket.NewEndpoint(layers.EndpointMAC, make([]byte, 17))
	}()
	func() {
		defer func() {
			if recover() == nil {
				fail("oversize-flow-accepted", "NewFlow accepted a 17-byte address", nil)
			}
		}()
		gopacket.NewFlow(layers.EndpointMAC, make([]byte, 17), make([]byte, 3))
	}()
	// pairs: equality, map keys, order, flows
	m := map[gopacket.Endpoint]int{}
	for i, a := range eps {
		m[a.e] = i
	}
	if len(m) != len(eps) {
		fail("distinct-endpoints-collide-as-map-keys", fmt.Sprintf("%d distinct (type,bytes) endpoints give %d map keys", len(eps), len(m)), nil)
	}
	fm := map[gopacket.Flow][2]int{}
	for i, a := range eps {
		for j, b := range eps {
			evals++
			same := a.t == b.t && bytes.Equal(a.b, b.b)
			ex := map[string]any{"a": fmt.Sprintf("%v:%x", a.t, a.b), "b": fmt.Sprintf("%v:%x", b.t, b.b)}
			if (a.e == b.e) != same {
				fail("equality-not-type-and-bytes", fmt.Sprintf("a==b is %v for %v", a.e == b.e, ex), ex)
			}
			if k, ok := m[b.e]; same && (!ok || k != i) && i == j {
				fail("equal-endpoints-not-interchangeable-as-keys", fmt.Sprint(ex), ex)
			}
			lt, gt := a.e.LessThan(b.e), b.e.LessThan(a.e)
			n := 0
			for _, x := range []bool{lt, gt, same} {
				if x {
					n++
				}
			}
			if n != 1 {
				fail("order-not-strict-total", fmt.Sprintf("a<b=%v b<a=%v a==b=%v for %v", lt, gt, same, ex), ex)
			}
			if a.e.FastHash() == b.e.FastHash() != same && same {
				fail("equal-endpoints-hash-differently", fmt.Sprint(ex), ex)
			}
			f, err := gopacket.FlowFromEndpoints(a.e, b.e)
			if (err == nil) != (a.t == b.t) {
				fail("flow-from-mismatched-types", fmt.Sprintf("FlowFromEndpoints error=%v for %v", err, ex), ex)
			}
			if err != nil {
				continue
			}
			s, d := f.Endpoints()
			if s != a.e || d != b.e || f.Src() != a.e || f.Dst() != b.e {
				fail("split-join-not-identity", fmt.Sprintf("FlowFromEndpoints(a,b).Endpoints() = (%v,%v) for %v", s, d, ex), ex)
			}
			nf := gopacket.NewFlow(a.t, a.b, b.b)
			if nf != f {
				fail("newflow-differs-from-endpoints", fmt.Sprintf("NewFlow(t,a,b) != FlowFromEndpoints(NewEndpoint(t,a),NewEndpoint(t,b)) for %v", ex), ex)
			}
			rv := f.Reverse()
			if rv.Reverse() != f {
				fail("reverse-twice-not-identity", fmt.Sprint(ex), ex)
			}
			rs, rd := rv.Endpoints()
			if rs != b.e || rd != a.e {
				fail("reverse-does-not-swap", fmt.Sprint(ex), ex)
			}
			if f.FastHash() != rv.FastHash() {
				fail("fasthash-not-symmetric", fmt.Sprintf("FastHash(f)=%#x FastHash(reverse)=%#x for %v", f.FastHash(), rv.FastHash(), ex), ex)
			}
			if old, dup := fm[f]; dup && (old != [2]int{i, j}) {
				fail("distinct-flows-collide-as-map-keys", fmt.Sprint(ex), ex)
			}
			fm[f] = [2]int{i, j}
		}
	}
	// triples: transitivity (within the whole set)
	lt := make([][]bool, len(eps))
	for i := range eps {
		lt[i] = make([]bool, len(eps))
		for j := range eps {
			lt[i][j] = eps[i].e.LessThan(eps[j].e)
		}
	}
	for i := range eps {
		for j := range eps {
			if !lt[i][j] {
				continue
			}
			for k := range eps {
				evals++
				if lt[j][k] && !lt[i][k] {
					ex := map[string]any{"a": fmt.Sprintf("%v:%x", eps[i].t, eps[i].b), "b": fmt.Sprintf("%v:%x", eps[j].t, eps[j].b), "c": fmt.Sprintf("%v:%x", eps[k].t, eps[k].b)}
					fail("order-not-transitive", fmt.Sprint(ex), ex)
				}
			}
		}
	}
	return
}

// ---- part 2: decoded layers report exactly their addresses --------------------------

type span struct{ so, sl, do, dl int } // src/dst offsets and lengths inside LayerContents

func wireSpans(l gopacket.Layer) (span, bool) {
	switch l.LayerType() {
	case layers.LayerTypeEthernet:
		return span{6, 6, 0, 6}, true
	case layers.LayerTypeIPv4:
		return span{12, 4, 16, 4}, true
	case layers.LayerTypeIPv6:
		return span{8, 16, 24, 16}, true
	case layers.LayerTypeTCP, layers.LayerTypeUDP, layers.LayerTypeUDPLite, layers.LayerTypeSCTP:
		return span{0, 2, 2, 2}, true
	}
	return span{}, false
}

func flowOf(l gopacket.Layer) (gopacket.Flow, bool) {
	switch v := l.(type) {
	case gopacket.LinkLayer:
		return v.LinkFlow(), true
	case gopacket.NetworkLayer:
		return v.NetworkFlow(), true
	case gopacket.TransportLayer:
		return v.TransportFlow(), true
	}
	return gopacket.Flow{}, false
}

// fieldAddrs reads the layer's own exported address fields (SrcMAC/DstMAC, SrcIP/DstIP,
// SrcPort/DstPort) as bytes; zero reports that both are unset.
func fieldAddrs(l gopacket.Layer) (src, dst []byte, zero, ok bool) {
	v := reflect.ValueOf(l)
	if v.Kind() != reflect.Ptr || v.IsNil() || v.Elem().Kind() != reflect.Struct {
		return
	}
	v = v.Elem()
	get := func(name string) ([]byte, bool) {
		f := v.FieldByName(name)
		if !f.IsValid() {
			return nil, false
		}
		switch f.Kind() {
		case reflect.Slice:
			if f.Type().Elem().Kind() == reflect.Uint8 {
				return f.Bytes(), true
			}
		case reflect.Uint16:
			return []byte{byte(f.Uint() >> 8), byte(f.Uint())}, true
		}
		return nil, false
	}
	for _, names := range [][2]string{{"SrcMAC", "DstMAC"}, {"SrcIP", "DstIP"}, {"SrcPort", "DstPort"}} {
		a, oka := get(names[0])
		b, okb := get(names[1])
		if oka && okb {
			zero = true
			for _, x := range append(append([]byte(nil), a...), b...) {
				if x != 0 {
					zero = false
				}
			}
			return a, b, zero, true
		}
	}
	return
}

func layerFlows(c dspace.Case, w *enum.Worker) {
	w.Guard("harness", func() {
		in := corpus.Exact(c.Data)
		p := gopacket.NewPacket(in, c.First.Dec, gopacket.DecodeOptions{NoCopy: true, DecodeStreamsAsDatagrams: true})
		ls := p.Layers()
		// every layer the packet lists - also the one whose decoder then reported an error, once it
		// has filled in its address fields: flow and fields tell the same addresses
		for idx, l := range ls {
			f, ok := flowOf(l)
			if !ok {
				continue
			}
			fs, fd, zero, ok := fieldAddrs(l)
			if !ok || zero {
				continue
			}
			switch l.LayerType() {
			case layers.LayerTypeEthernet, layers.LayerTypeIPv4, layers.LayerTypeIPv6, layers.LayerTypeTCP, layers.LayerTypeUDP, layers.LayerTypeUDPLite, layers.LayerTypeSCTP:
			default:
				continue
			}
			w.Count("layer_flows_against_fields", 1)
			src, dst := f.Endpoints()
			if !bytes.Equal(src.Raw(), fs) || !bytes.Equal(dst.Raw(), fd) {
				w.Violation("c17|layer-flow-not-the-layers-address-fields|"+l.LayerType().String(), fmt.Sprintf("layer %d (%v) of the packet: flow %v, address fields src=%x dst=%x", idx, l.LayerType(), f, fs, fd))
			}
		}
		if p.ErrorLayer() != nil && len(ls) > 0 {
			ls = ls[:len(ls)-1]
			if len(ls) > 0 {
				ls = ls[:len(ls)-1] // the layer at which decoding failed may be partially filled
			}
		}
		for idx, l := range ls {
			f, ok := flowOf(l)
			if !ok {
				continue
			}
			w.Count("layer_flows", 1)
			w.OutcomeString(l.LayerType().String() + f.EndpointType().String())
			sp, known := wireSpans(l)
			ct := l.LayerContents()
			if !known || len(ct) < sp.do+sp.dl || len(ct) < sp.so+sp.sl {
				continue
			}
			src, dst := f.Endpoints()
			if !bytes.Equal(src.Raw(), ct[sp.so:sp.so+sp.sl]) || !bytes.Equal(dst.Raw(), ct[sp.do:sp.do+sp.dl]) {
				w.Violation("c17|layer-flow-not-the-wire-addresses|"+l.LayerType().String(), fmt.Sprintf("layer %d (%v): flow %v but the header bytes say src=%x dst=%x", idx, l.LayerType(), f, ct[sp.so:sp.so+sp.sl], ct[sp.do:sp.do+sp.dl]))
				continue
			}
			// the flow of a decoded layer is a value: writing that layer into a serialize buffer and
			// using the buffer for something else afterwards does not change it
			if sl, ok := l.(gopacket.SerializableLayer); ok {
				func() {
					defer func() { recover() }() // serializer panics are C07's subject
					b := gopacket.NewSerializeBuffer()
					if sl.SerializeTo(b, gopacket.SerializeOptions{}) == nil {
						n := len(b.Bytes())
						b.Clear()
						// the same number of bytes again: they land in the memory the layer was written to
						if x, err := b.PrependBytes(n); err == nil {
							for i := range x {
								x[i] = 0xEE
							}
						}
						if f3, _ := flowOf(l); f3 != f {
							w.Violation("c17|layer-flow-changes-after-serializing|"+l.LayerType().String(), fmt.Sprintf("layer %d (%v): flow %v before, %v after the layer was written into a buffer that was then reused", idx, l.LayerType(), f, f3))
						}
					}
				}()
			}
			// the other direction of the conversation: swap the address bytes in the input
			off := int(uintptr(unsafe.Pointer(unsafe.SliceData(ct))) - uintptr(unsafe.Pointer(unsafe.SliceData(in))))
			if off < 0 || off+len(ct) > len(in) {
				continue
			}
			in2 := corpus.Exact(c.Data)
			copy(in2[off+sp.so:], ct[sp.do:sp.do+sp.dl])
			copy(in2[off+sp.do:], ct[sp.so:sp.so+sp.sl])
			p2 := gopacket.NewPacket(in2, c.First.Dec, gopacket.DecodeOptions{NoCopy: true, DecodeStreamsAsDatagrams: true})
			ls2 := p2.Layers()
			if idx >= len(ls2) || ls2[idx].LayerType() != l.LayerType() {
				continue
			}
			f2, _ := flowOf(ls2[idx])
			if f2 != f.Reverse() {
				w.Violation("c17|other-direction-not-the-reversed-flow|"+l.LayerType().String(), fmt.Sprintf("layer %d (%v): flow %v, flow of the packet with swapped addresses %v", idx, l.LayerType(), f, f2))
			} else if f2.FastHash() != f.FastHash() {
				w.Violation("c17|directions-hash-differently|"+l.LayerType().String(), fmt.Sprintf("%v vs %v", f, f2))
			}
			w.Count("swapped", 1)
		}
	})
}

func main() {
	r := report.New("C17", "exploration")
	sp := dspace.Build(r.Thorough())
	phases := []enum.Phase{
		{Name: "layer-flows", Len: sp.NeighLen(),
			Run:      func(i int64, w *enum.Worker) { layerFlows(sp.NeighCase(i), w) },
			Describe: func(i int64) any { return sp.NeighCase(i).Describe() }},
	}
	if os.Getenv("VERIF_ENUM_WORKER") == "" && os.Getenv("VERIF_REPLAY") == "" {
		ev, distinct := algebra(r)
		r.Coverage["algebra_evaluations"] = ev
		r.Coverage["algebra_endpoints"] = distinct
		r.Coverage["evaluations"] = ev
	}
	enum.Main(r, phases)
	r.Coverage["rule"] = "algebra: 5 endpoint types x 126 address byte strings plus 5 extreme type numbers (MaxInt64, MinInt64, -2, MaxInt64-1, 2^62) x 6 addresses (all strings of length 0..3 over {0,1,0xff}; lengths 4,6,15,16 with every single-position variation): all ordered pairs (equality <=> type and bytes, map-key behaviour, strict total order, FlowFromEndpoints/Endpoints/NewFlow/Reverse identities, FastHash symmetry, type-mismatch error) and all triples (transitivity); 17-byte addresses must be refused. layer-flows: every decoded layer exposing a flow in the deviation<=1 neighbourhoods: for Ethernet, IPv4, IPv6, TCP, UDP, UDPLite, SCTP the flow's raw addresses must equal the address bytes of the layer's own header, the packet with those bytes swapped must yield the reversed flow with the same FastHash, and the flow must not change after the layer was written into a serialize buffer that is then reused. distinct_nontrivial = distinct (layer type, endpoint type) pairs seen plus ... see counters."
	r.Assumptions = []string{"header layouts of Ethernet/IPv4/IPv6/TCP/UDP/UDPLite/SCTP (address offsets) are the trusted reference for the layer-flow clause", "the layer at which decoding failed is excluded (it may be partially filled by design)"}
	r.Finish()
}
