// C15: capture-file readers are safe on arbitrary and hostile input.
package main

import (
	"bytes"
	"compress/gzip"
	"encoding/binary"
	"encoding/hex"
	"errors"
	"fmt"
	"hash/fnv"
	"io"
	"os"
	"path/filepath"
	"runtime/metrics"
	"sort"
	"strings"
	"time"

	"github.com/gopacket/gopacket"
	"github.com/gopacket/gopacket/pcapgo"

	"verif/engine/enum"
	"verif/engine/report"
)

// ---- seeds ------------------------------------------------------------------------

type seed struct {
	name string
	kind string // pcap, pcapng, snoop
	data []byte
}

func gz(b []byte) []byte {
	var o bytes.Buffer
	w := gzip.NewWriter(&o)
	w.Write(b)
	w.Close()
	return o.Bytes()
}

func snoopFile(recs [][]byte, padTo int) []byte {
	var b bytes.Buffer
	b.WriteString("snoop\x00\x00\x00")
	binary.Write(&b, binary.BigEndian, uint32(2))
	binary.Write(&b, binary.BigEndian, uint32(4))
	for i, r := range recs {
		pad := (padTo - len(r)%padTo) % padTo
		binary.Write(&b, binary.BigEndian, uint32(len(r)))        // original length
		binary.Write(&b, binary.BigEndian, uint32(len(r)))        // included length
		binary.Write(&b, binary.BigEndian, uint32(24+len(r)+pad)) // record length
		binary.Write(&b, binary.BigEndian, uint32(0))
		binary.Write(&b, binary.BigEndian, uint32(1000+i))
		binary.Write(&b, binary.BigEndian, uint32(7))
		b.Write(r)
		b.Write(make([]byte, pad))
	}
	return b.Bytes()
}

// ngSynthetic builds a pcapng file containing one block of every type the reader knows and some
// it does not (no repository file has an obsolete Packet Block): section header, interface
// description (with if_tsresol), obsolete Packet Block (type 2, with a comment option), Simple
// Packet Block, Enhanced Packet Block, name resolution, interface statistics, decryption secrets,
// a custom block, an unknown block type.
func ngSynthetic(bo binary.ByteOrder) []byte {
	var f bytes.Buffer
	u16 := func(b *bytes.Buffer, v uint16) { binary.Write(b, bo, v) }
	u32 := func(b *bytes.Buffer, v uint32) { binary.Write(b, bo, v) }
	pad := func(b *bytes.Buffer) {
		for b.Len()%4 != 0 {
			b.WriteByte(0)
		}
	}
	opt := func(b *bytes.Buffer, code uint16, val []byte) {
		u16(b, code)
		u16(b, uint16(len(val)))
		b.Write(val)
		pad(b)
	}
	block := func(typ uint32, body []byte) {
		u32(&f, typ)
		u32(&f, uint32(12+len(body)))
		f.Write(body)
		u32(&f, uint32(12+len(body)))
	}
	var b bytes.Buffer
	u32(&b, 0x1a2b3c4d)
	u16(&b, 1)
	u16(&b, 0)
	b.Write([]byte{0xff, 0xff, 0xff, 0xff, 0xff, 0xff, 0xff, 0xff})
	opt(&b, 2, []byte("hw"))
	opt(&b, 0, nil)
	block(0x0a0d0d0a, b.Bytes())
	b.Reset()
	u16(&b, 1) // link type ethernet
	u16(&b, 0)
	u32(&b, 96) // snap length
	opt(&b, 2, []byte("eth0"))
	opt(&b, 9, []byte{6}) // if_tsresol
	opt(&b, 0, nil)
	block(1, b.Bytes())
	data := []byte{1, 2, 3, 4, 5, 6, 7}
	b.Reset() // obsolete Packet Block
	u16(&b, 0)
	u16(&b, 0xffff)
	u32(&b, 0)
	u32(&b, 1000)
	u32(&b, uint32(len(data)))
	u32(&b, uint32(len(data)+3))
	b.Write(data)
	pad(&b)
	opt(&b, 1, []byte("pb"))
	opt(&b, 0, nil)
	block(2, b.Bytes())
	b.Reset() // Simple Packet Block
	u32(&b, uint32(len(data)))
	b.Write(data)
	pad(&b)
	block(3, b.Bytes())
	b.Reset() // Enhanced Packet Block
	u32(&b, 0)
	u32(&b, 0)
	u32(&b, 2000)
	u32(&b, 5)
	u32(&b, 9)
	b.Write(data[:5])
	pad(&b)
	opt(&b, 1, []byte("epb"))
	opt(&b, 0, nil)
	block(6, b.Bytes())
	b.Reset() // Name Resolution Block
	u16(&b, 1)
	u16(&b, 9)
	b.Write([]byte{10, 0, 0, 1, 'h', 'o', 's', 't', 0})
	pad(&b)
	u16(&b, 0)
	u16(&b, 0)
	block(4, b.Bytes())
	b.Reset() // Interface Statistics Block
	u32(&b, 0)
	u32(&b, 0)
	u32(&b, 3000)
	opt(&b, 4, []byte{0, 0, 0, 0, 0, 0, 0, 9})
	opt(&b, 0, nil)
	block(5, b.Bytes())
	b.Reset() // Decryption Secrets Block
	u32(&b, 0x544c534b)
	u32(&b, 5)
	b.Write([]byte("KEYS\n"))
	pad(&b)
	block(10, b.Bytes())
	b.Reset() // custom block
	u32(&b, 32473)
	b.Write([]byte("custom"))
	pad(&b)
	block(0x00000bad, b.Bytes())
	block(0x7fff0001, []byte{1, 2, 3, 4}) // unknown block type
	// one more packet behind all of them
	b.Reset()
	u32(&b, 0)
	u32(&b, 0)
	u32(&b, 4000)
	u32(&b, 3)
	u32(&b, 3)
	b.Write(data[:3])
	pad(&b)
	block(6, b.Bytes())
	return f.Bytes()
}

func loadSeeds(maxLen int) []seed {
	var out []seed
	files, _ := filepath.Glob(filepath.Join(report.Root(), "corpus", "files", "*"))
	sort.Strings(files)
	for _, f := range files {
		d, err := os.ReadFile(f)
		if err != nil || len(d) > maxLen {
			continue
		}
		k := "pcap"
		if strings.HasSuffix(f, ".pcapng") {
			k = "pcapng"
		}
		out = append(out, seed{filepath.Base(f), k, d})
	}
	// classic pcap files written by the library's own writer with declared snap lengths 0 (often
	// used for "unlimited") and 65535
	for _, snap := range []uint32{0, 65535} {
		var b bytes.Buffer
		w := pcapgo.NewWriter(&b)
		w.WriteFileHeader(snap, 1)
		for i, n := range []int{5, 60} {
			d := make([]byte, n)
			for j := range d {
				d[j] = byte(i*16 + j)
			}
			w.WritePacket(gopacket.CaptureInfo{Timestamp: time.Unix(int64(1000+i), 0), CaptureLength: n, Length: n + i}, d)
		}
		out = append(out, seed{fmt.Sprintf("synthetic-pcap-snaplen-%d", snap), "pcap", b.Bytes()})
	}
	out = append(out, seed{"synthetic-pcapng-every-block-type-le", "pcapng", ngSynthetic(binary.LittleEndian)})
	out = append(out, seed{"synthetic-pcapng-every-block-type-be", "pcapng", ngSynthetic(binary.BigEndian)})
	out = append(out, seed{"synthetic-snoop-2-records", "snoop", snoopFile([][]byte{{1, 2, 3, 4, 5, 6, 7}, {9, 9, 9, 9}}, 4)})
	out = append(out, seed{"synthetic-snoop-unpadded", "snoop", snoopFile([][]byte{{1, 2, 3, 4, 5, 6, 7, 8}}, 1)})
	// gzip-wrapped copies of a few small files of each format
	n := 0
	for _, s := range append([]seed(nil), out...) {
		if len(s.data) <= 700 && s.kind != "snoop" && n < 8 {
			out = append(out, seed{s.name + ".gz", s.kind, gz(s.data)})
			n++
		}
	}
	return out
}

// ---- deviations -------------------------------------------------------------------

var byteVals = []int{0, 1, 2, 3, 4, 5, 7, 8, 0x0f, 0x10, 0x1e, 0x1f, 0x20, 0x3f, 0x40, 0x7f, 0x80, 0x81, 0xc0, 0xf0, 0xfe, 0xff, 256, 257}
var w32 = []int64{0, 1, 3, 4, 7, 8, 11, 12, 0x7fffffff, 0x80000000, 0xfffffffc, 0xffffffff, -1, -2, -4, -5} // -1: v+1, -2: v-1, -4: v+4, -5: v-4
var w16 = []int64{0, 1, 3, 4, 0xffff, -1, -2}

func nVariants(l int) int64 {
	return int64(1 + l + l*len(byteVals) + (l/4)*len(w32)*2 + (l/2)*len(w16)*2)
}

func variant(s []byte, j int64) ([]byte, string) {
	if j == 0 {
		return s, "unmodified"
	}
	j--
	l := int64(len(s))
	if j < l {
		return s[:j], fmt.Sprintf("truncated to %d bytes", j)
	}
	j -= l
	o := append([]byte(nil), s...)
	if j < l*int64(len(byteVals)) {
		i, v := j/int64(len(byteVals)), byteVals[j%int64(len(byteVals))]
		switch v {
		case 256:
			o[i]++
		case 257:
			o[i]--
		default:
			o[i] = byte(v)
		}
		return o, fmt.Sprintf("byte %d <- %#x", i, o[i])
	}
	j -= l * int64(len(byteVals))
	n32 := (l / 4) * int64(len(w32)) * 2
	if j < n32 {
		k := j % int64(len(w32))
		be := (j / int64(len(w32))) % 2
		pos := (j / int64(len(w32)*2)) * 4
		var bo binary.ByteOrder = binary.LittleEndian
		if be == 1 {
			bo = binary.BigEndian
		}
		v := w32[k]
		cur := int64(bo.Uint32(o[pos:]))
		switch v {
		case -1:
			v = cur + 1
		case -2:
			v = cur - 1
		case -4:
			v = cur + 4
		case -5:
			v = cur - 4
		}
		bo.PutUint32(o[pos:], uint32(v))
		return o, fmt.Sprintf("32-bit word at %d <- %#x (%v)", pos, uint32(v), bo)
	}
	j -= n32
	k := j % int64(len(w16))
	be := (j / int64(len(w16))) % 2
	pos := (j / int64(len(w16)*2)) * 2
	var bo binary.ByteOrder = binary.LittleEndian
	if be == 1 {
		bo = binary.BigEndian
	}
	v := w16[k]
	cur := int64(bo.Uint16(o[pos:]))
	switch v {
	case -1:
		v = cur + 1
	case -2:
		v = cur - 1
	}
	bo.PutUint16(o[pos:], uint16(v))
	return o, fmt.Sprintf("16-bit word at %d <- %#x (%v)", pos, uint16(v), bo)
}

// ---- adversarial io.Reader ---------------------------------------------------------

type chunked struct {
	data    []byte
	pos     int
	size    int // constant read size (0 = whatever is asked)
	shortAt int // one 1-byte read when pos == shortAt (-1 none)
	errAt   int // the k-th Read call returns err (-1 none)
	err     error
	calls   int
	// fault at a byte offset: after exactly errPos bytes were delivered the stream fails
	// (errPos < 0: none). errWith: the error comes together with the last bytes before the
	// offset (n > 0, err != nil) when there are any; oneShot: the error is reported once and
	// the stream then continues (a transient fault), otherwise it persists.
	errPos  int
	errWith bool
	oneShot bool
	fired   bool
}

func newChunked(d []byte, size int) *chunked {
	return &chunked{data: d, size: size, shortAt: -1, errAt: -1, errPos: -1}
}

func (c *chunked) Read(p []byte) (int, error) {
	c.calls++
	if c.errAt >= 0 && c.calls-1 == c.errAt {
		return 0, c.err
	}
	if c.errPos >= 0 && c.pos == c.errPos && !(c.oneShot && c.fired) && len(p) > 0 {
		c.fired = true
		return 0, c.err
	}
	if c.pos >= len(c.data) {
		return 0, io.EOF
	}
	n := len(p)
	if c.size > 0 && n > c.size {
		n = c.size
	}
	if c.errPos > c.pos && n >= c.errPos-c.pos && !(c.oneShot && c.fired) {
		n = c.errPos - c.pos
		if c.errWith && n > 0 {
			copy(p, c.data[c.pos:c.pos+n])
			c.pos += n
			c.fired = true
			return n, c.err
		}
	}
	if c.shortAt >= 0 && c.pos == c.shortAt && n > 1 {
		n = 1
	}
	if n > len(c.data)-c.pos {
		n = len(c.data) - c.pos
	}
	copy(p, c.data[c.pos:c.pos+n])
	c.pos += n
	return n, nil
}

var errInjected = errors.New("injected I/O error")

type timeoutErr struct{}

func (timeoutErr) Error() string   { return "injected i/o timeout" }
func (timeoutErr) Timeout() bool   { return true }
func (timeoutErr) Temporary() bool { return true }

// ---- reading ------------------------------------------------------------------------

type pk struct {
	n          int
	h          uint64
	caplen, ln int
	ts         int64
	ifc        int
}

type outcome struct {
	pkts     []pk
	err      string
	ctorErr  bool
	viol     string
	what     string
	maxAlloc uint64
	snap     uint64
}

var sample = []metrics.Sample{{Name: "/gc/heap/allocs:bytes"}}

func allocs() uint64 {
	metrics.Read(sample)
	return sample[0].Value.Uint64()
}

type reader interface {
	ReadPacketData() ([]byte, gopacket.CaptureInfo, error)
	ZeroCopyReadPacketData() ([]byte, gopacket.CaptureInfo, error)
}

// run reads a stream to its end with alternating read calls and applies the per-call oracle.
func run(kind string, cfg int, src io.Reader, streamLen int) (o outcome) {
	var rd reader
	var ng *pcapgo.NgReader
	a0 := allocs()
	var err error
	switch kind {
	case "pcap":
		var r *pcapgo.Reader
		r, err = pcapgo.NewReader(src)
		if err == nil {
			rd = r
			o.snap = uint64(r.Snaplen())
		}
	case "pcapng":
		opt := pcapgo.NgReaderOptions{}
		switch cfg {
		case 1:
			opt.WantMixedLinkType = true
		case 2:
			opt.SkipUnknownVersion = true
		}
		ng, err = pcapgo.NewNgReader(src, opt)
		if err == nil {
			rd = ng
		}
	case "snoop":
		var r *pcapgo.SnoopReader
		r, err = pcapgo.NewSnoopReader(src)
		if err == nil {
			rd = r
		}
	}
	bound := func() uint64 { return 8*(uint64(streamLen)+o.snap) + 1<<20 }
	if d := allocs() - a0; d > bound() {
		o.viol, o.what = "allocation-out-of-proportion", fmt.Sprintf("constructor allocated %d bytes for a %d-byte stream", d, streamLen)
	}
	if err != nil {
		o.err, o.ctorErr = err.Error(), true
		return
	}
	maxCalls := streamLen + 16
	for i := 0; ; i++ {
		if i > maxCalls {
			o.viol, o.what = "no-progress", fmt.Sprintf("%d read calls on a %d-byte stream without reaching its end", i, streamLen)
			return
		}
		refreshSnap := func() {
			if ng != nil {
				for k := 0; k < ng.NInterfaces(); k++ {
					if in, e := ng.Interface(k); e == nil && uint64(in.SnapLength) > o.snap {
						o.snap = uint64(in.SnapLength)
					}
				}
			}
		}
		refreshSnap()
		// a buffer-reusing read sizes its buffer to the declared snap length by design; with an
		// absurd declared snap length (> 16 MiB) only the copying calls are used
		hugeSnap := o.snap > 1<<24
		a := allocs()
		var d []byte
		var ci gopacket.CaptureInfo
		var err error
		switch {
		case ng != nil && i%4 == 2:
			d, ci, _, err = ng.ReadPacketDataWithOptions()
		case ng != nil && i%4 == 3 && !hugeSnap:
			d, ci, _, err = ng.ZeroCopyReadPacketDataWithOptions()
		case i%2 == 0 || hugeSnap:
			d, ci, err = rd.ReadPacketData()
		default:
			d, ci, err = rd.ZeroCopyReadPacketData()
		}
		refreshSnap() // interfaces described inside this call count as declared
		if al := allocs() - a; al > o.maxAlloc {
			o.maxAlloc = al
		}
		if al := allocs() - a; al > bound() && o.viol == "" {
			o.viol, o.what = "allocation-out-of-proportion", fmt.Sprintf("read call %d allocated %d bytes; the stream has %d bytes and the declared snap length is %d", i, al, streamLen, o.snap)
		}
		if err != nil {
			o.err = err.Error()
			return
		}
		if len(d) != ci.CaptureLength || ci.CaptureLength > ci.Length {
			if o.viol == "" {
				o.viol, o.what = "inconsistent-lengths", fmt.Sprintf("read call %d returned %d bytes with CaptureLength %d and Length %d", i, len(d), ci.CaptureLength, ci.Length)
			}
		}
		f := fnv.New64a()
		f.Write(d)
		o.pkts = append(o.pkts, pk{len(d), f.Sum64(), ci.CaptureLength, ci.Length, ci.Timestamp.UnixNano(), ci.InterfaceIndex})
	}
}

func (o outcome) sig() string {
	return fmt.Sprintf("%v|%v|%s", o.pkts, o.ctorErr, o.err)
}

// ---- cases --------------------------------------------------------------------------

type space struct {
	seeds []seed
	cum   []int64
}

func (s *space) get(i int64) (seed, []byte, string) {
	k := sort.Search(len(s.seeds), func(k int) bool { return s.cum[k+1] > i })
	d, desc := variant(s.seeds[k].data, i-s.cum[k])
	return s.seeds[k], d, desc
}

func configs(kind string) int {
	if kind == "pcapng" {
		return 3
	}
	return 1
}

func main() {
	r := report.New("C15", "fault_enumeration")
	maxLen := 1700
	if r.Thorough() {
		maxLen = 3000
	}
	sp := &space{seeds: loadSeeds(maxLen)}
	sp.cum = make([]int64, len(sp.seeds)+1)
	for i, s := range sp.seeds {
		n := nVariants(len(s.data))
		if strings.HasSuffix(s.name, ".gz") {
			n = 1 + int64(len(s.data)) // compressed copies: unmodified and every truncation
		}
		sp.cum[i+1] = sp.cum[i] + n
	}
	describe := func(i int64) any {
		s, d, desc := sp.get(i)
		return map[string]any{"seed": s.name, "format": s.kind, "deviation": desc, "len": len(d), "hex": hex.EncodeToString(d[:min(len(d), 2048)])}
	}
	chunkSizes := []int{1, 3, 7}
	phases := []enum.Phase{
		{Name: "deviations", Len: sp.cum[len(sp.seeds)], Describe: describe,
			Run: func(i int64, w *enum.Worker) {
				s, d, _ := sp.get(i)
				for cfg := 0; cfg < configs(s.kind); cfg++ {
					var base outcome
					if w.Guard(fmt.Sprintf("reader(%s)", s.kind), func() { base = run(s.kind, cfg, bytes.NewReader(d), len(d)) }) {
						continue
					}
					if base.viol != "" {
						w.Violation("c15|"+base.viol+"|"+s.kind, base.what)
					}
					w.OutcomeString(fmt.Sprintf("%s/%d/%v/%.20s", s.kind, len(base.pkts), base.ctorErr, base.err))
					if cfg != 0 {
						continue
					}
					// the same bytes delivered in short reads must give the same results
					for _, cs := range chunkSizes {
						var o outcome
						if w.Guard(fmt.Sprintf("reader(%s) chunked", s.kind), func() {
							o = run(s.kind, cfg, newChunked(d, cs), len(d))
						}) {
							continue
						}
						if o.sig() != base.sig() {
							w.Violation("c15|result-depends-on-read-sizes|"+s.kind, fmt.Sprintf("read size %d: %.300s  vs whole reads: %.300s", cs, o.sig(), base.sig()))
						}
					}
				}
			}},
		{Name: "stream-faults", Len: int64(len(sp.seeds)), ChunkHint: 1,
			Describe: func(i int64) any { return map[string]any{"seed": sp.seeds[i].name, "format": sp.seeds[i].kind} },
			Run: func(i int64, w *enum.Worker) {
				s := sp.seeds[i]
				d := s.data
				var base outcome
				if w.Guard("reader", func() { base = run(s.kind, 0, bytes.NewReader(d), len(d)) }) {
					return
				}
				// every constant read size, and one short read at every offset
				for _, cs := range []int{1, 2, 3, 5, 7, 16, 4093} {
					var o outcome
					w.Guard("reader chunked", func() { o = run(s.kind, 0, newChunked(d, cs), len(d)) })
					if o.sig() != base.sig() {
						w.Violation("c15|result-depends-on-read-sizes|"+s.kind, fmt.Sprintf("read size %d: %.300s vs %.300s", cs, o.sig(), base.sig()))
					}
					w.Count("chunkings", 1)
				}
				for at := 0; at < len(d); at++ {
					var o outcome
					w.Guard("reader short read", func() {
						o = run(s.kind, 0, func() *chunked { c := newChunked(d, 0); c.shortAt = at; return c }(), len(d))
					})
					if o.sig() != base.sig() {
						w.Violation("c15|result-depends-on-read-sizes|"+s.kind, fmt.Sprintf("one short read at offset %d: %.300s vs %.300s", at, o.sig(), base.sig()))
					}
					w.Count("chunkings", 1)
				}
				// one injected error at every read call of two chunkings
				for _, cs := range []int{16, 64} {
					probe := newChunked(d, cs)
					w.Guard("reader", func() { run(s.kind, 0, probe, len(d)) })
					for k := 0; k < probe.calls; k++ {
						for _, e := range []error{errInjected, timeoutErr{}} {
							var o outcome
							if w.Guard("reader with injected error", func() {
								o = run(s.kind, 0, func() *chunked { c := newChunked(d, cs); c.errAt = k; c.err = e; return c }(), len(d))
							}) {
								continue
							}
							w.Count("injected_errors", 1)
							if o.err == "" {
								w.Violation("c15|injected-error-swallowed|"+s.kind, fmt.Sprintf("an error injected at read call %d (read size %d) never surfaced", k, cs))
								continue
							}
							if len(o.pkts) > len(base.pkts) {
								w.Violation("c15|packets-after-injected-error|"+s.kind, "more packets than the fault-free run")
								continue
							}
							for j := range o.pkts {
								if o.pkts[j] != base.pkts[j] {
									w.Violation("c15|packet-before-injected-error-differs|"+s.kind, fmt.Sprintf("packet %d", j))
									break
								}
							}
						}
					}
				}
				// one fault after exactly `at` delivered bytes, for every byte offset: reported by a
				// call of its own or together with the last bytes, persistent or transient, with
				// whole and 1-byte reads
				for at := 0; at < len(d); at++ {
					for style := 0; style < 8; style++ {
						cs := 0
						if style&4 != 0 {
							cs = 1
						}
						mk := func() *chunked {
							c := newChunked(d, cs)
							c.errPos, c.err, c.errWith, c.oneShot = at, errInjected, style&1 != 0, style&2 != 0
							return c
						}
						var o outcome
						src := mk()
						if w.Guard("reader with a fault at a byte offset", func() { o = run(s.kind, 0, src, len(d)) }) {
							continue
						}
						w.Count("injected_errors", 1)
						if !src.fired {
							continue // the reader never asked for the byte at this offset
						}
						if o.err == "" {
							w.Violation("c15|injected-error-swallowed|"+s.kind, fmt.Sprintf("a read error after exactly %d of %d bytes (with the data: %v, transient: %v, read size %d) never surfaced", at, len(d), style&1 != 0, style&2 != 0, cs))
							continue
						}
						if len(o.pkts) > len(base.pkts) {
							w.Violation("c15|packets-after-injected-error|"+s.kind, "more packets than the fault-free run")
							continue
						}
						for j := range o.pkts {
							if o.pkts[j] != base.pkts[j] {
								w.Violation("c15|packet-before-injected-error-differs|"+s.kind, fmt.Sprintf("packet %d (fault after %d bytes)", j, at))
								break
							}
						}
					}
				}
			}},
		{Name: "cross-format", Len: int64(len(sp.seeds)), ChunkHint: 4,
			Describe: func(i int64) any { return map[string]any{"seed": sp.seeds[i].name, "format": "every reader"} },
			Run: func(i int64, w *enum.Worker) {
				for _, k := range []string{"pcap", "pcapng", "snoop"} {
					var o outcome
					w.Guard("reader("+k+") on a "+sp.seeds[i].kind+" file", func() { o = run(k, 0, bytes.NewReader(sp.seeds[i].data), len(sp.seeds[i].data)) })
					if o.viol != "" {
						w.Violation("c15|"+o.viol+"|"+k, o.what)
					}
				}
			}},
	}
	// large records: files written by the real writers with a declared snap length and a record
	// size at, just above and well above the sizes at which the readers grow or cap their buffers
	type largeCase struct {
		kind       string
		snap, size int
		bigAt      int
	}
	var larges []largeCase
	for _, kind := range []string{"pcap", "pcapng"} {
		for _, snap := range []int{0, 65535, 1 << 20, 1<<20 + 1, 2 << 20, 8 << 20} {
			for _, size := range []int{60, 65535, 65536, 65537, 1 << 20, 1<<20 + 1, 2 << 20} {
				if (snap != 0 && size > snap) || (snap == 0 && kind == "pcap") {
					continue
				}
				larges = append(larges, largeCase{kind, snap, size, 1}, largeCase{kind, snap, size, 2})
			}
		}
	}
	phases = append(phases, enum.Phase{Name: "large-records", Len: int64(len(larges)), ChunkHint: 1,
		Describe: func(i int64) any {
			l := larges[i]
			return map[string]any{"format": l.kind, "declared_snap_length": l.snap, "record_bytes": l.size, "record_index": l.bigAt}
		},
		Run: func(i int64, w *enum.Worker) {
			l := larges[i]
			var b bytes.Buffer
			sizes := []int{60, 60, 60, 60}[:l.bigAt+2]
			sizes[l.bigAt] = l.size
			ts := time.Unix(1000, 0)
			write := func(n int) error { return nil }
			if l.kind == "pcap" {
				pw := pcapgo.NewWriter(&b)
				pw.WriteFileHeader(uint32(l.snap), 1)
				write = func(n int) error {
					return pw.WritePacket(gopacket.CaptureInfo{Timestamp: ts, CaptureLength: n, Length: n}, make([]byte, n))
				}
			} else {
				nw, err := pcapgo.NewNgWriterInterface(&b, pcapgo.NgInterface{Name: "x", LinkType: 1, SnapLength: uint32(l.snap), TimestampResolution: 9}, pcapgo.NgWriterOptions{})
				if err != nil {
					return
				}
				write = func(n int) error {
					if err := nw.WritePacket(gopacket.CaptureInfo{Timestamp: ts, CaptureLength: n, Length: n}, make([]byte, n)); err != nil {
						return err
					}
					return nw.Flush()
				}
			}
			for _, n := range sizes {
				if write(n) != nil {
					return
				}
			}
			d := b.Bytes()
			var o outcome
			if w.Guard(fmt.Sprintf("reader(%s) large record", l.kind), func() { o = run(l.kind, 0, bytes.NewReader(d), len(d)) }) {
				return
			}
			w.Count("large_files", 1)
			key := fmt.Sprintf("|%s", l.kind)
			switch {
			case o.viol != "":
				w.Violation("c15|"+o.viol+key, o.what)
			case o.ctorErr || o.err != io.EOF.Error() || len(o.pkts) != len(sizes):
				w.Violation("c15|large-record-file-not-read-to-its-end"+key, fmt.Sprintf("declared snap length %d, records %v: %d packets, constructor error %v, final error %q", l.snap, sizes, len(o.pkts), o.ctorErr, o.err))
			default:
				for k, p := range o.pkts {
					if p.n != sizes[k] {
						w.Violation("c15|large-record-length-wrong"+key, fmt.Sprintf("record %d has %d bytes, read %d", k, sizes[k], p.n))
					}
				}
			}
			w.OutcomeString(fmt.Sprintf("large/%s/%d/%.20s", l.kind, len(o.pkts), o.err))
		}})
	r.Coverage["seed_files"] = len(sp.seeds)
	r.Coverage["rule"] = "seeds: every capture file of the repository up to the stated size (pcap, pcapng in both byte orders), two synthetic snoop files, gzip-wrapped copies. deviations (d<=1): unmodified, every truncation, every byte x 24 values, every 4-aligned 32-bit word x 16 values x both byte orders, every 2-aligned 16-bit word x 7 values x both byte orders; read with the matching reader (pcapng: default, WantMixedLinkType, SkipUnknownVersion) alternating all read calls, and again in reads of 1, 3 and 7 bytes. stream-faults on unmodified seeds: 7 constant read sizes, one short read at every offset, one injected error (plain and net.Error timeout) at every read call of two chunkings. Per call: no panic, no stall (worker watchdog), at most bytes+16 calls, len(data)==CaptureLength<=Length, bytes allocated by the call <= 8*(stream bytes + declared snap length)+1MiB (runtime/metrics), identical results under every chunking, injected errors surface and earlier packets are unchanged. large-records: files written by the real writers with declared snap lengths 0/65535/1 MiB/1 MiB+1/2 MiB/8 MiB and one record of 60/65535/65536/65537/1 MiB/1 MiB+1/2 MiB bytes (second or third record, so that it meets a copying and a buffer-reusing call) must be read to their end with every record at its length. distinct_nontrivial = distinct (format, packets returned, constructor failed, error prefix) outcomes."
	r.Assumptions = []string{"allocation measured with runtime/metrics /gc/heap/allocs:bytes around each call in a single-threaded worker", "worker address space limited to 6 GiB: larger allocations end the worker and are attributed to the case"}
	enum.Main(r, phases)
	r.Finish()
}
