// C04 part s: no two undisposed pooled packets ever share backing memory, for
// every history of NewPacket/Dispose calls (the pool's Get is an explorer
// choice among every block previously returned and a fresh one) and for every
// interleaving of such calls on several goroutines.
package main

import (
	"fmt"
	"os"
	"unsafe"

	"github.com/gopacket/gopacket"
	"github.com/gopacket/gopacket/zzverif/vsync"

	"verif/engine/dfs"
	"verif/engine/report"
)

type live struct {
	p        gopacket.Packet
	want     []byte
	block    *[]byte
	disposed bool
	id       int
}

type world struct {
	pk   []*live
	next byte
	viol []string
	what string
}

func (w *world) fail(k, what string) {
	w.viol = append(w.viol, k)
	if w.what == "" {
		w.what = what
	}
}

var lens = []int{1, 1499, 1500, 1501}

func (w *world) newPacket(n int, lazy bool) *live {
	w.next += 17
	d := make([]byte, n)
	for i := range d {
		d[i] = w.next + byte(i%7)
	}
	want := append([]byte(nil), d...)
	p := gopacket.NewPacket(d, gopacket.DecodePayload, gopacket.DecodeOptions{Pool: true, Lazy: lazy})
	for i := range d {
		d[i] = 0x55 // the caller re-uses its buffer
	}
	l := &live{p: p, want: want, block: gopacket.VerifPooledBlock(p), id: len(w.pk)}
	_, pooled := p.(gopacket.PooledPacket)
	if pooled != (n <= 1500) {
		w.fail("pooled-iff-fits", fmt.Sprintf("len %d: PooledPacket=%v", n, pooled))
	}
	w.pk = append(w.pk, l)
	w.check("New")
	return l
}

func (w *world) touch(l *live) {
	ls := l.p.Layers()
	_ = l.p.String()
	if len(ls) > 0 {
		_ = ls[0].LayerContents()
	}
	w.check("Touch")
}

func (w *world) dispose(l *live) {
	// the packet counts as disposed from the moment Dispose is called: the block may be
	// handed to another goroutine while Dispose is still returning
	was := l.disposed
	l.disposed = true
	if pp, ok := l.p.(gopacket.PooledPacket); ok && !was {
		pp.Dispose()
	}
	w.check("Dispose")
}

// check: live undisposed pooled packets have pairwise distinct blocks, and every
// undisposed packet still reads the bytes it was created with.
func (w *world) check(after string) {
	for i, a := range w.pk {
		if a.disposed {
			continue
		}
		if string(a.p.Data()) != string(a.want) {
			w.fail("live-packet-corrupted", fmt.Sprintf("after %s: packet #%d (len %d) no longer reads the bytes it was decoded from (first byte %#x, want %#x)", after, a.id, len(a.want), first(a.p.Data()), first(a.want)))
		}
		_, aPooled := a.p.(gopacket.PooledPacket)
		for _, b := range w.pk[i+1:] {
			if b.disposed {
				continue
			}
			if a.block != nil && b.block != nil && (a.block == b.block || unsafe.SliceData(*a.block) == unsafe.SliceData(*b.block)) {
				w.fail("two-live-packets-share-a-block", fmt.Sprintf("after %s: packets #%d and #%d are both undisposed and share one pool block", after, a.id, b.id))
				continue
			}
			// independent of the private block field: the bytes of two undisposed pooled packets
			// must not overlap in memory
			if _, bPooled := b.p.(gopacket.PooledPacket); aPooled && bPooled && overlap(a.p.Data(), b.p.Data()) {
				w.fail("two-live-packets-share-a-block", fmt.Sprintf("after %s: the data of the undisposed pooled packets #%d and #%d overlaps in memory", after, a.id, b.id))
			}
		}
	}
}

func overlap(x, y []byte) bool {
	if len(x) == 0 || len(y) == 0 {
		return false
	}
	x0, y0 := uintptr(unsafe.Pointer(unsafe.SliceData(x))), uintptr(unsafe.Pointer(unsafe.SliceData(y)))
	return x0 < y0+uintptr(len(y)) && y0 < x0+uintptr(len(x))
}

func first(b []byte) byte {
	if len(b) == 0 {
		return 0
	}
	return b[0]
}

// ---- sequential histories ---------------------------------------------------------

type opcode struct {
	kind int // 0 new 1 dispose 2 touch
	n    int
	lazy bool
	j    int
}

func (o opcode) String() string {
	switch o.kind {
	case 0:
		return fmt.Sprintf("New(len=%d,lazy=%v)", o.n, o.lazy)
	case 1:
		return fmt.Sprintf("Dispose(#%d)", o.j)
	}
	return fmt.Sprintf("Touch(#%d)", o.j)
}

func runHistory(depth int, c *dfs.Chooser) (w *world, ops []opcode) {
	w = &world{}
	gopacket.VerifResetPacketPool()
	vsync.PoolChoice = true
	vsync.SeqChooser = c
	defer func() { vsync.SeqChooser = nil }()
	defer func() {
		if r := recover(); r != nil {
			w.fail("panic|"+fmt.Sprint(r), fmt.Sprint(r))
		}
	}()
	for step := 0; step < depth; step++ {
		var en []opcode
		nlive := 0
		for _, l := range w.pk {
			if !l.disposed {
				nlive++
			}
		}
		if nlive < 3 {
			for _, n := range lens {
				en = append(en, opcode{kind: 0, n: n}, opcode{kind: 0, n: n, lazy: true})
			}
		}
		for _, l := range w.pk {
			if !l.disposed {
				en = append(en, opcode{kind: 1, j: l.id}, opcode{kind: 2, j: l.id})
			}
		}
		o := en[c.Choose(len(en))]
		ops = append(ops, o)
		switch o.kind {
		case 0:
			w.newPacket(o.n, o.lazy)
		case 1:
			w.dispose(w.pk[o.j])
		case 2:
			w.touch(w.pk[o.j])
		}
		if len(w.viol) > 0 {
			return
		}
	}
	return
}

// ---- concurrent scenarios ---------------------------------------------------------

type scen struct {
	name    string
	threads int
	prog    []int // per thread: lengths of New calls; between them Touch + Dispose
	choice  bool
}

func runConcurrent(sc *scen, c *dfs.Chooser) (*world, *vsync.Result) {
	w := &world{}
	gopacket.VerifResetPacketPool()
	vsync.PoolChoice = sc.choice
	var bodies []func()
	for t := 0; t < sc.threads; t++ {
		bodies = append(bodies, func() {
			var mine []*live
			for i, n := range sc.prog {
				l := w.newPacket(n, i%2 == 1)
				mine = append(mine, l)
				w.touch(l)
				if i%2 == 0 || i == len(sc.prog)-1 {
					// dispose the oldest packet this thread still holds
					for _, m := range mine {
						if !m.disposed {
							w.dispose(m)
							break
						}
					}
				}
			}
			for _, m := range mine {
				if !m.disposed {
					w.touch(m)
					w.dispose(m)
				}
			}
		})
	}
	res := vsync.Run(c, 3000, bodies)
	if res.Panic != nil {
		k, site := report.PanicKey(res.Panic, res.PanicStack)
		w.fail(k, fmt.Sprintf("thread T%d panicked: %v at %s", res.PanicThread, res.Panic, site))
	} else if res.Deadlock {
		w.fail("deadlock", fmt.Sprint(res.Blocked))
	} else if res.Livelock {
		w.fail("livelock", "more than 3000 scheduling steps")
	}
	return w, res
}

func main() {
	r := report.New("C04", "model_checking")
	depth := 6
	bounds := []int{0, 1, 2, 3}
	if r.Thorough() {
		depth = 7
		bounds = []int{0, 1, 2, 3, 4}
	}
	scens := []scen{
		{name: "two-threads-new-touch-dispose", threads: 2, prog: []int{1500, 7, 1500}},
		{name: "three-threads-new-touch-dispose", threads: 3, prog: []int{1500, 1499}},
		{name: "two-threads-pool-get-is-a-choice", threads: 2, prog: []int{1500, 7}, choice: true},
	}
	if rp := os.Getenv("VERIF_REPLAY"); rp != "" {
		var f struct {
			Replay struct {
				Part     string `json:"part"`
				Scenario string `json:"scenario"`
				Depth    int    `json:"depth"`
				Schedule []int  `json:"choices"`
			} `json:"replay"`
		}
		report.ReadJSON(rp, &f)
		if f.Replay.Part != "c04s" {
			os.Exit(0)
		}
		var w *world
		if f.Replay.Scenario == "" {
			dfs.ExploreFrom(f.Replay.Schedule, -1, 1, nil, func(c *dfs.Chooser) { w, _ = runHistory(f.Replay.Depth, c) })
		} else {
			for i := range scens {
				if scens[i].name == f.Replay.Scenario {
					dfs.ExploreFrom(f.Replay.Schedule, -1, 1, nil, func(c *dfs.Chooser) { w, _ = runConcurrent(&scens[i], c) })
				}
			}
		}
		if w != nil && len(w.viol) > 0 {
			fmt.Println("REPRODUCED", w.viol, w.what)
			os.Exit(1)
		}
		fmt.Println("no violation reproduced")
		os.Exit(0)
	}
	var execs, points int64
	outcomes := map[string]struct{}{}
	var samples []any
	// 1. sequential histories with the pool's Get as a choice
	st := dfs.Explore(-1, 0, r.Expired, func(c *dfs.Chooser) {
		w, ops := runHistory(depth, c)
		nd := 0
		for _, l := range w.pk {
			if l.disposed {
				nd++
			}
		}
		outcomes[fmt.Sprintf("seq/%d/%d/%d", len(w.pk), nd, gopacket.VerifPacketPoolLen())] = struct{}{}
		for _, v := range w.viol {
			r.Violation("c04|history|"+v, fmt.Sprintf("%s; history %v; choices %v", w.what, ops, c.Trace()), int64(len(ops)),
				map[string]any{"part": "c04s", "depth": depth, "history": fmt.Sprint(ops), "choices": c.Trace()})
		}
		if len(samples) < 2 && len(ops) == depth && len(c.Trace()) > depth {
			samples = append(samples, map[string]any{"history": fmt.Sprint(ops), "choices": c.Trace()})
		}
	})
	if st.Capped {
		r.Exhaustive = false
	}
	execs += st.Executions
	points += st.Points
	fmt.Printf("# sequential pool histories depth %d: %d executions, %d choices\n", depth, st.Executions, st.Points)
	// 2. interleavings
	boundDone := bounds[len(bounds)-1]
	per := map[string]any{}
	for si := range scens {
		sc := &scens[si]
		var last dfs.Stats
		for _, b := range bounds {
			newViol := 0
			stop := func() bool { return newViol >= 20 || r.Expired() }
			cnt := 0
			s2 := dfs.Explore(b, 0, stop, func(c *dfs.Chooser) {
				w, res := runConcurrent(sc, c)
				cnt++
				outcomes[fmt.Sprintf("%s/%d/%d", sc.name, len(w.viol), gopacket.VerifPacketPoolLen())] = struct{}{}
				for _, v := range w.viol {
					newViol++
					r.Violation("c04|schedule|"+v+"|"+sc.name, fmt.Sprintf("%s; scenario %s: %d threads each New%v with Touch/Dispose; preemption bound %d; choices %v; threads run %v", w.what, sc.name, sc.threads, sc.prog, b, c.Trace(), res.Trace),
						int64(b)*1_000_000+int64(len(c.Trace())), map[string]any{"part": "c04s", "scenario": sc.name, "choices": c.Trace(), "threads_run": res.Trace})
				}
				if cnt%97 == 1 {
					var w2 *world
					dfs.ExploreFrom(c.Trace(), -1, 1, nil, func(c2 *dfs.Chooser) { w2, _ = runConcurrent(sc, c2) })
					if len(w2.viol) != len(w.viol) {
						fmt.Println("INTERNAL ERROR: replay diverged in", sc.name)
						os.Exit(2)
					}
				}
			})
			fmt.Printf("# %s bound %d: %d executions, %d choice points, capped=%v\n", sc.name, b, s2.Executions, s2.Points, s2.Capped)
			last = s2
			if s2.Capped {
				r.Exhaustive = false
				if b-1 < boundDone {
					boundDone = b - 1
				}
			}
			if newViol > 0 || s2.Capped {
				break
			}
		}
		execs += last.Executions
		points += last.Points
		per[sc.name] = map[string]any{"executions_at_highest_bound": last.Executions, "threads": sc.threads, "program": fmt.Sprint(sc.prog), "pool_get_is_choice": sc.choice}
		samples = append(samples, map[string]any{"scenario": sc.name, "threads": sc.threads, "program_lengths": sc.prog})
	}
	r.Coverage["states"] = execs
	r.Coverage["transitions"] = points
	r.Coverage["traces_validated_against_impl"] = execs
	r.Coverage["sequential_history_depth"] = depth
	r.Coverage["sequential_histories"] = st.Executions
	r.Coverage["preemption_bound_completed"] = boundDone
	r.Coverage["scenarios"] = per
	r.Coverage["distinct_outcomes"] = len(outcomes)
	r.Coverage["samples"] = samples
	r.Coverage["explanation"] = "packet.go compiled with sync.Pool replaced by the vsync shim pool. Sequential part: every history of the stated depth over New(len in {1,1499,1500,1501}, eager/lazy) / Dispose(j) / Touch(j) with at most 3 undisposed packets, where every Pool.Get is an explorer choice among all blocks previously returned and a fresh one (a superset of sync.Pool's behaviour). Concurrent part: 2-3 threads running New/Touch/Dispose programs under the cooperative scheduler with scheduling points before and after every Pool.Get/Put, all schedules within the preemption bound. Invariant after every operation: undisposed pooled packets have pairwise distinct blocks and still read the bytes they were decoded from (the caller's buffer is overwritten right after NewPacket)."
	r.Assumptions = []string{"the shim pool (any previously returned block or a fresh one) over-approximates sync.Pool", "sequential consistency; a use of a block after Put is made visible by the scheduling point after Put"}
	r.Finish()
}
