// C07, layer values built through public fields:
//
//   - constructed stacks (package cons: transport over IPv4/IPv6 incl. jumbograms, option and TLV
//     lists, NDP, GRE, TCP option lists that continue after an End-of-Option-List entry) written
//     with SerializeLayers into buffers of every prepend headroom 0..64, of headroom just below
//     the output size, and into cleared buffers that held other data before;
//   - the deviation-1 neighbourhood of layer VALUES: every exported field (recursively: nested
//     structs, pointers, first and last element of lists) of a base value - the zero value of
//     every serializable type, every layer of every unmodified seed, every layer of the small
//     constructed stacks - set to each value of a small boundary set for its kind.
package main

import (
	"bytes"
	"fmt"
	"reflect"
	"runtime/debug"
	"strings"
	"sync"

	"github.com/gopacket/gopacket"

	"verif/engine/cons"
	"verif/engine/corpus"
	"verif/engine/dspace"
	"verif/engine/enum"
	"verif/engine/report"
	"verif/gen"
)

// ---- buffer histories for stacks ------------------------------------------------------

func dirtyPrepend(n int) gopacket.SerializeBuffer {
	b := gopacket.NewSerializeBuffer()
	p, _ := b.PrependBytes(n)
	for i := range p {
		p[i] = 0xAA
	}
	b.Clear()
	return b
}

type stackHist struct {
	name string
	mk   func() gopacket.SerializeBuffer
}

var nearSize = []int{0, 1, 2, 7, 8, 9, 20, 39, 40, 41, 47, 48, 49, 60}

func stackHists(size int) []stackHist {
	hs := []stackHist{
		{"cleared after holding 3000+3000 other bytes", func() gopacket.SerializeBuffer { return dirty(3000) }},
		{"cleared after holding 16+16 other bytes", func() gopacket.SerializeBuffer { return dirty(16) }},
	}
	for n := 0; n <= 64; n++ {
		n := n
		hs = append(hs, stackHist{fmt.Sprintf("expected size (%d,0)", n), func() gopacket.SerializeBuffer { return gopacket.NewSerializeBufferExpectedSize(n, 0) }})
	}
	for _, k := range nearSize {
		n := size - k
		if n <= 64 {
			continue
		}
		hs = append(hs, stackHist{fmt.Sprintf("expected size (output size-%d,0)", k), func() gopacket.SerializeBuffer { return gopacket.NewSerializeBufferExpectedSize(n, 0) }})
		hs = append(hs, stackHist{fmt.Sprintf("cleared after holding output size-%d prepended bytes", k), func() gopacket.SerializeBuffer { return dirtyPrepend(n) }})
	}
	return hs
}

func attach(ls []gopacket.SerializableLayer) {
	var nl gopacket.NetworkLayer
	for _, l := range ls {
		if n, ok := l.(gopacket.NetworkLayer); ok {
			nl = n
		}
	}
	for _, l := range ls {
		if s, ok := l.(setter); ok && nl != nil {
			s.SetNetworkLayerForChecksum(nl)
		}
	}
}

func writeStack(c cons.Case, b gopacket.SerializeBuffer, o gopacket.SerializeOptions) (out outcome, pv any, stack []byte) {
	defer func() {
		if pv = recover(); pv != nil {
			stack = debug.Stack()
		}
	}()
	ls, pay := c.Make()
	attach(ls)
	all := append(append([]gopacket.SerializableLayer(nil), ls...), gopacket.Payload(pay))
	if err := gopacket.SerializeLayers(b, o, all...); err != nil {
		return outcome{err: true, etext: err.Error()}, nil, nil
	}
	return outcome{bytes: append([]byte(nil), b.Bytes()...)}, nil, nil
}

func runStack(c cons.Case, w *enum.Worker) {
	fam := cons.FamilyOf(c.Desc)
	for _, o := range optSets {
		ref, pv, st := writeStack(c, gopacket.NewSerializeBuffer(), o)
		w.Count("serializations", 1)
		if pv != nil {
			key, site := report.PanicKey(pv, st)
			w.Violation(key, fmt.Sprintf("SerializeLayers of the constructed stack %q panicked: %v at %s (options %+v)", c.Desc, pv, site, o))
			continue
		}
		w.OutcomeString(fmt.Sprintf("stack/%s/%v/%d", fam, ref.err, len(ref.bytes)/16))
		for _, h := range stackHists(len(ref.bytes)) {
			out, pv, st := writeStack(c, h.mk(), o)
			w.Count("serializations", 1)
			if pv != nil {
				key, site := report.PanicKey(pv, st)
				w.Violation(key, fmt.Sprintf("SerializeLayers of the constructed stack %q panicked: %v at %s (options %+v, buffer: %s)", c.Desc, pv, site, o, h.name))
				break
			}
			if out.err != ref.err {
				w.Violation("c07|stack|error-depends-on-buffer-history|"+fam, fmt.Sprintf("%s with options %+v: fresh buffer error=%v (%s), buffer %q error=%v (%s)", c.Desc, o, ref.err, ref.etext, h.name, out.err, out.etext))
				break
			}
			if !out.err && !bytes.Equal(out.bytes, ref.bytes) {
				w.Violation("c07|stack|bytes-depend-on-buffer-history|"+fam, fmt.Sprintf("%s with options %+v: %s", c.Desc, o, diff(ref.bytes, out.bytes, "fresh buffer", h.name)))
				break
			}
		}
	}
}

// ---- field mutations --------------------------------------------------------------------

type mut struct {
	path  string
	apply func(root reflect.Value) bool // false: not applicable to this value
}

type getter func(root reflect.Value) (reflect.Value, bool)

var (
	mutCache   = map[reflect.Type][]mut{}
	mutCacheMu sync.Mutex
)

func mutsFor(t reflect.Type) []mut {
	mutCacheMu.Lock()
	defer mutCacheMu.Unlock()
	if m, ok := mutCache[t]; ok {
		return m
	}
	var out []mut
	walk(t, func(root reflect.Value) (reflect.Value, bool) { return root, true }, "", 0, &out)
	mutCache[t] = out
	return out
}

func fill(n int) []byte {
	b := make([]byte, n)
	for i := range b {
		b[i] = 0xA5
	}
	return b
}

func add(out *[]mut, path, val string, get getter, set func(v reflect.Value) bool) {
	*out = append(*out, mut{path: path + " <- " + val, apply: func(root reflect.Value) bool {
		v, ok := get(root)
		if !ok || !v.CanSet() {
			return false
		}
		return set(v)
	}})
}

func walk(t reflect.Type, get getter, path string, depth int, out *[]mut) {
	switch t.Kind() {
	case reflect.Bool:
		add(out, path, "!", get, func(v reflect.Value) bool { v.SetBool(!v.Bool()); return true })
	case reflect.Uint8, reflect.Uint16, reflect.Uint32, reflect.Uint64, reflect.Uint:
		max := uint64(1)<<uint(t.Bits()) - 1
		if t.Bits() == 64 {
			max = ^uint64(0)
		}
		for _, x := range []uint64{0, 1, 2, max, max>>1 + 1, max >> 1} {
			x := x
			add(out, path, fmt.Sprintf("%#x", x), get, func(v reflect.Value) bool {
				if v.Uint() == x {
					return false
				}
				v.SetUint(x)
				return true
			})
		}
		add(out, path, "+1", get, func(v reflect.Value) bool { v.SetUint((v.Uint() + 1) & max); return true })
		add(out, path, "-1", get, func(v reflect.Value) bool { v.SetUint((v.Uint() - 1) & max); return true })
	case reflect.Int8, reflect.Int16, reflect.Int32, reflect.Int64, reflect.Int:
		hi := int64(1)<<uint(t.Bits()-1) - 1
		for _, x := range []int64{0, 1, -1, hi, -hi - 1} {
			x := x
			add(out, path, fmt.Sprint(x), get, func(v reflect.Value) bool {
				if v.Int() == x {
					return false
				}
				v.SetInt(x)
				return true
			})
		}
	case reflect.Float32, reflect.Float64:
		for _, x := range []float64{0, 1, -1} {
			x := x
			add(out, path, fmt.Sprint(x), get, func(v reflect.Value) bool { v.SetFloat(x); return true })
		}
	case reflect.String:
		for _, x := range []string{"", "a", strings.Repeat("x", 300)} {
			x := x
			add(out, path, fmt.Sprintf("string of %d", len(x)), get, func(v reflect.Value) bool {
				if v.String() == x {
					return false
				}
				v.SetString(x)
				return true
			})
		}
	case reflect.Slice:
		if t.Elem().Kind() == reflect.Uint8 {
			add(out, path, "nil", get, func(v reflect.Value) bool {
				if v.IsNil() {
					return false
				}
				v.Set(reflect.Zero(t))
				return true
			})
			for _, n := range []int{0, 1, 3, 4, 5, 15, 17, 255, 256, 65536} {
				n := n
				add(out, path, fmt.Sprintf("%d bytes", n), get, func(v reflect.Value) bool {
					if !v.IsNil() && v.Len() == n {
						return false
					}
					v.Set(reflect.ValueOf(fill(n)).Convert(t))
					return true
				})
			}
			add(out, path, "one byte shorter", get, func(v reflect.Value) bool {
				if v.Len() == 0 {
					return false
				}
				v.Set(v.Slice(0, v.Len()-1))
				return true
			})
			add(out, path, "one byte longer", get, func(v reflect.Value) bool {
				n := reflect.MakeSlice(t, v.Len()+1, v.Len()+1)
				reflect.Copy(n, v)
				n.Index(v.Len()).SetUint(0xA5)
				v.Set(n)
				return true
			})
			return
		}
		add(out, path, "nil", get, func(v reflect.Value) bool {
			if v.IsNil() {
				return false
			}
			v.Set(reflect.Zero(t))
			return true
		})
		add(out, path, "empty", get, func(v reflect.Value) bool {
			if !v.IsNil() && v.Len() == 0 {
				return false
			}
			v.Set(reflect.MakeSlice(t, 0, 0))
			return true
		})
		add(out, path, "first element only", get, func(v reflect.Value) bool {
			if v.Len() < 2 {
				return false
			}
			v.Set(v.Slice(0, 1))
			return true
		})
		add(out, path, "last element dropped", get, func(v reflect.Value) bool {
			if v.Len() < 1 {
				return false
			}
			v.Set(v.Slice(0, v.Len()-1))
			return true
		})
		add(out, path, "list twice", get, func(v reflect.Value) bool {
			if v.Len() < 1 {
				return false
			}
			v.Set(reflect.AppendSlice(reflect.AppendSlice(reflect.MakeSlice(t, 0, 2*v.Len()), v), v))
			return true
		})
		add(out, path, "first element x256", get, func(v reflect.Value) bool {
			if v.Len() < 1 {
				return false
			}
			n := reflect.MakeSlice(t, 256, 256)
			for i := 0; i < 256; i++ {
				n.Index(i).Set(v.Index(0))
			}
			v.Set(n)
			return true
		})
		add(out, path, "one zero element appended", get, func(v reflect.Value) bool {
			v.Set(reflect.Append(v, reflect.Zero(t.Elem())))
			return true
		})
		if depth < 3 {
			walk(t.Elem(), func(root reflect.Value) (reflect.Value, bool) {
				v, ok := get(root)
				if !ok || v.Len() == 0 {
					return v, false
				}
				return v.Index(0), true
			}, path+"[0]", depth+1, out)
			walk(t.Elem(), func(root reflect.Value) (reflect.Value, bool) {
				v, ok := get(root)
				if !ok || v.Len() < 2 {
					return v, false
				}
				return v.Index(v.Len() - 1), true
			}, path+"[last]", depth+1, out)
		}
	case reflect.Array:
		if t.Elem().Kind() == reflect.Uint8 {
			for _, x := range []uint64{0, 0xff} {
				x := x
				add(out, path, fmt.Sprintf("all %#x", x), get, func(v reflect.Value) bool {
					for i := 0; i < v.Len(); i++ {
						v.Index(i).SetUint(x)
					}
					return true
				})
			}
		}
	case reflect.Ptr:
		add(out, path, "nil", get, func(v reflect.Value) bool {
			if v.IsNil() {
				return false
			}
			v.Set(reflect.Zero(t))
			return true
		})
		add(out, path, "new zero value", get, func(v reflect.Value) bool {
			if !v.IsNil() {
				return false
			}
			v.Set(reflect.New(t.Elem()))
			return true
		})
		if depth < 3 && t.Elem().Kind() == reflect.Struct {
			walk(t.Elem(), func(root reflect.Value) (reflect.Value, bool) {
				v, ok := get(root)
				if !ok || v.IsNil() {
					return v, false
				}
				return v.Elem(), true
			}, path, depth+1, out)
		}
	case reflect.Map, reflect.Interface:
		add(out, path, "nil", get, func(v reflect.Value) bool {
			if v.IsNil() {
				return false
			}
			v.Set(reflect.Zero(t))
			return true
		})
	case reflect.Struct:
		for i := 0; i < t.NumField(); i++ {
			f := t.Field(i)
			if f.PkgPath != "" { // unexported: not reachable through public fields
				continue
			}
			i := i
			p := f.Name
			if path != "" {
				p = path + "." + f.Name
			}
			walk(f.Type, func(root reflect.Value) (reflect.Value, bool) {
				v, ok := get(root)
				if !ok {
					return v, false
				}
				return v.Field(i), true
			}, p, depth, out)
		}
	}
}

// ---- bases --------------------------------------------------------------------------------

type base struct {
	name string
	typ  reflect.Type // struct type of the layer value
	// make returns a fresh value (pointer to struct) and the payload to write it over
	make func() (gopacket.SerializableLayer, []byte)
}

func buildBases(sp *dspace.Spaces, thorough bool) []base {
	var bs []base
	// zero values of every serializable type
	for _, lc := range gen.LayerTypes {
		lc := lc
		if _, ok := lc.New().(gopacket.SerializableLayer); !ok {
			continue
		}
		for _, pn := range []int{0, 5} {
			pn := pn
			bs = append(bs, base{name: fmt.Sprintf("zero value of layers.%s over %d payload bytes", lc.Name, pn), typ: reflect.TypeOf(lc.New()).Elem(),
				make: func() (gopacket.SerializableLayer, []byte) {
					return lc.New().(gopacket.SerializableLayer), cons.PayloadN(pn)
				}})
		}
	}
	// every serializable layer of every unmodified per-type seed
	for si := range sp.TSeeds {
		t := sp.TSeeds[si]
		var n int
		var types []reflect.Type
		func() {
			defer func() { recover() }()
			for _, l := range gopacket.NewPacket(corpus.Exact(t.Data), t.First.Dec, gopacket.DecodeOptions{DecodeStreamsAsDatagrams: true}).Layers() {
				types = append(types, reflect.TypeOf(l))
				n++
			}
		}()
		for i := 0; i < n; i++ {
			i := i
			if types[i].Kind() != reflect.Ptr || types[i].Elem().Kind() != reflect.Struct || !types[i].Implements(reflect.TypeOf((*gopacket.SerializableLayer)(nil)).Elem()) {
				continue
			}
			c := dspace.Case{First: t.First, Data: t.Data, Seed: t.Name, SeedIdx: si}
			bs = append(bs, base{name: fmt.Sprintf("layer %d (%s) of seed %s", i, types[i].Elem().Name(), t.Name), typ: types[i].Elem(),
				make: func() (gopacket.SerializableLayer, []byte) { return layerAt(c, i) }})
		}
	}
	// every layer of the small constructed stacks
	for _, c := range builtStacks(thorough) {
		c := c
		if !c.Small {
			continue
		}
		ls, _ := c.Make()
		for i := range ls {
			i := i
			bs = append(bs, base{name: fmt.Sprintf("layer %d of constructed %s", i, c.Desc), typ: reflect.TypeOf(ls[i]).Elem(),
				make: func() (gopacket.SerializableLayer, []byte) {
					ls, pay := c.Make()
					attach(ls)
					// the layer is written over the bytes of the layers above it and the payload
					b := gopacket.NewSerializeBuffer()
					rest := append(append([]gopacket.SerializableLayer(nil), ls[i+1:]...), gopacket.Payload(pay))
					if err := gopacket.SerializeLayers(b, gopacket.SerializeOptions{FixLengths: true, ComputeChecksums: true}, rest...); err != nil {
						return ls[i], pay
					}
					return ls[i], append([]byte(nil), b.Bytes()...)
				}})
		}
	}
	return bs
}

func builtStacks(thorough bool) []cons.Case {
	return append(cons.All(thorough), cons.TCPOptions(true)...)
}

type builtSpace struct {
	bases []base
	cum   []int64
}

func newBuiltSpace(sp *dspace.Spaces, thorough bool) *builtSpace {
	s := &builtSpace{bases: buildBases(sp, thorough)}
	s.cum = make([]int64, len(s.bases)+1)
	for i, b := range s.bases {
		s.cum[i+1] = s.cum[i] + int64(len(mutsFor(b.typ))) + 1 // +1: the unmodified base value
	}
	return s
}

func (s *builtSpace) at(i int64) (bi int, mi int) {
	lo, hi := 0, len(s.bases)
	for lo < hi {
		m := (lo + hi) / 2
		if s.cum[m+1] > i {
			hi = m
		} else {
			lo = m + 1
		}
	}
	return lo, int(i-s.cum[lo]) - 1 // -1 = unmodified
}

func (s *builtSpace) describe(i int64) any {
	bi, mi := s.at(i)
	d := map[string]any{"base": s.bases[bi].name, "mutation": "none"}
	if mi >= 0 {
		d["mutation"] = mutsFor(s.bases[bi].typ)[mi].path
	}
	return d
}

var builtHists = []hist{hists[0], hists[1], hists[2], {"expected size (7,3)", func() gopacket.SerializeBuffer { return gopacket.NewSerializeBufferExpectedSize(7, 3) }}}

func writeBuilt(b base, m *mut, buf gopacket.SerializeBuffer, o gopacket.SerializeOptions, times int) (outs []outcome, applicable bool, pv any, stack []byte) {
	defer func() {
		if pv = recover(); pv != nil {
			stack = debug.Stack()
		}
	}()
	sl, payload := b.make()
	if sl == nil {
		return nil, false, nil, nil
	}
	if m != nil {
		if !m.apply(reflect.ValueOf(sl).Elem()) {
			return nil, false, nil, nil
		}
	}
	applicable = true
	for k := 0; k < times; k++ {
		if k > 0 {
			buf = gopacket.NewSerializeBuffer()
		}
		var out outcome
		if len(payload) > 0 {
			p, err := buf.AppendBytes(len(payload))
			if err != nil {
				return append(outs, outcome{err: true, etext: err.Error()}), true, nil, nil
			}
			copy(p, payload)
		}
		if err := sl.SerializeTo(buf, o); err != nil {
			out = outcome{err: true, etext: err.Error()}
		} else {
			out = outcome{bytes: append([]byte(nil), buf.Bytes()...)}
		}
		outs = append(outs, out)
	}
	return outs, true, nil, nil
}

// last base evaluated by this worker: the failure classes of the UNMODIFIED base value; a
// mutated value failing in the same way is attributed to the base's class
var (
	lastBase     = -1
	lastBaseFail map[string]bool
)

func runBuilt(s *builtSpace, i int64, w *enum.Worker) {
	bi, mi := s.at(i)
	b := s.bases[bi]
	if bi != lastBase {
		lastBase, lastBaseFail = bi, map[string]bool{}
		evalBuilt(b, nil, w, func(kind, key, what string) {
			lastBaseFail[kind] = true
			w.ViolationCase(key, what, map[string]any{"base": b.name, "mutation": "none"})
		})
	}
	if mi < 0 {
		return
	}
	m := mutsFor(b.typ)[mi]
	evalBuilt(b, &m, w, func(kind, key, what string) {
		if lastBaseFail[kind] {
			return // the unmodified base value already fails this way (reported for the base)
		}
		w.Violation(key, what)
	})
}

func evalBuilt(b base, m *mut, w *enum.Worker, fail func(kind, key, what string)) {
	tn := b.typ.Name()
	desc := b.name
	fpath := ""
	if m != nil {
		desc += " with " + m.path
		fpath = m.path[:strings.Index(m.path, " <- ")]
	}
	for _, o := range optSets {
		var ref outcome
		for h, hh := range builtHists {
			times := 1
			if h == 0 {
				times = 3
			}
			outs, ok, pv, st := writeBuilt(b, m, hh.mk(), o, times)
			if !ok {
				w.Count("inapplicable", 1)
				return
			}
			w.Count("serializations", int64(len(outs)))
			if pv != nil {
				key, site := report.PanicKey(pv, st)
				fail("panic:"+key, key, fmt.Sprintf("SerializeTo of a built %s panicked: %v at %s (%s; options %+v, buffer: %s)", tn, pv, site, desc, o, hh.name))
				return
			}
			if h == 0 {
				ref = outs[0]
				w.OutcomeString(fmt.Sprintf("built/%s/%v/%d", tn, ref.err, len(ref.bytes)/16))
				if len(outs) == 3 && (outs[1].err != outs[2].err || !bytes.Equal(outs[1].bytes, outs[2].bytes)) {
					fail("repeat", "c07|built|repeated-write-differs|"+tn+"|"+fpath, fmt.Sprintf("%s with options %+v: %s", desc, o, diff(outs[1].bytes, outs[2].bytes, "second write", "third write")))
				}
				continue
			}
			out := outs[0]
			if out.err != ref.err {
				fail("err-history", "c07|built|error-depends-on-buffer-history|"+tn+"|"+fpath, fmt.Sprintf("%s with options %+v: fresh buffer error=%v (%s), buffer %q error=%v (%s)", desc, o, ref.err, ref.etext, hh.name, out.err, out.etext))
				return
			}
			if !out.err && !bytes.Equal(out.bytes, ref.bytes) {
				fail("bytes-history", "c07|built|bytes-depend-on-buffer-history|"+tn+"|"+fpath, fmt.Sprintf("%s with options %+v: %s", desc, o, diff(ref.bytes, out.bytes, "fresh buffer", hh.name)))
				return
			}
		}
	}
}

func builtPhases(r *report.Run, sp *dspace.Spaces) []enum.Phase {
	stacks := builtStacks(r.Thorough())
	bs := newBuiltSpace(sp, r.Thorough())
	r.Coverage["built_stacks"] = len(stacks)
	r.Coverage["built_bases"] = len(bs.bases)
	r.Coverage["built_rule"] = "constructed-stacks: " + cons.Rule + " plus TCP option lists of 1..3 entries containing an End-of-Option-List entry (unaligned): each written with SerializeLayers under the 4 option sets into a fresh buffer, buffers of every prepend headroom 0..64, headroom of output size minus {0,1,2,7,8,9,20,39,40,41,47,48,49,60}, and cleared buffers that held that many / 16+16 / 3000+3000 other bytes. built-values: base values (zero value of every serializable layer type over 0 and 5 payload bytes; every serializable layer of every unmodified per-type seed; every layer of the small constructed stacks) x every exported field path (nested structs, pointers, first and last list element; depth<=3) x a boundary value set per kind (bool toggled; integers 0,1,2,max,high bit,+-1; byte strings nil and 0,1,3,4,5,15,17,255,256,65536 bytes, one shorter, one longer; lists nil, empty, first only, last dropped, doubled, first x256, zero element appended; pointers nil/new; strings of 0,1,300): written 3 times into fresh buffers and once into 3 other buffer histories under the 4 option sets."
	return []enum.Phase{
		{Name: "constructed-stacks", Len: int64(len(stacks)), ChunkHint: 8,
			Describe: func(i int64) any { return map[string]any{"constructed": stacks[i].Desc} },
			Run:      func(i int64, w *enum.Worker) { runStack(stacks[i], w) }},
		{Name: "built-values", Len: bs.cum[len(bs.bases)], Describe: bs.describe,
			Run: func(i int64, w *enum.Worker) { runBuilt(bs, i, w) }},
	}
}
