// C07: serialization never panics; the bytes depend only on layer, payload and options.
package main

import (
	"bytes"
	"fmt"

	"github.com/gopacket/gopacket"

	"verif/engine/corpus"
	"verif/engine/dspace"
	"verif/engine/enum"
	"verif/engine/report"
)

type hist struct {
	name string
	mk   func() gopacket.SerializeBuffer
}

func dirty(n int) gopacket.SerializeBuffer {
	b := gopacket.NewSerializeBuffer()
	p, _ := b.PrependBytes(n)
	for i := range p {
		p[i] = 0xAA
	}
	a, _ := b.AppendBytes(n)
	for i := range a {
		a[i] = 0x55
	}
	b.Clear()
	return b
}

var hists = []hist{
	{"fresh", gopacket.NewSerializeBuffer},
	{"cleared after holding 3000+3000 other bytes", func() gopacket.SerializeBuffer { return dirty(3000) }},
	{"expected size (1,1)", func() gopacket.SerializeBuffer { return gopacket.NewSerializeBufferExpectedSize(1, 1) }},
	{"cleared after holding 16+16 other bytes", func() gopacket.SerializeBuffer { return dirty(16) }},
	{"expected size (0,0)", func() gopacket.SerializeBuffer { return gopacket.NewSerializeBufferExpectedSize(0, 0) }},
	{"expected size (64,0)", func() gopacket.SerializeBuffer { return gopacket.NewSerializeBufferExpectedSize(64, 0) }},
	{"expected size (0,64)", func() gopacket.SerializeBuffer { return gopacket.NewSerializeBufferExpectedSize(0, 64) }},
	{"expected size (4096,4096)", func() gopacket.SerializeBuffer { return gopacket.NewSerializeBufferExpectedSize(4096, 4096) }},
}

var optSets = []gopacket.SerializeOptions{{}, {FixLengths: true}, {ComputeChecksums: true}, {FixLengths: true, ComputeChecksums: true}}

type setter interface {
	SetNetworkLayerForChecksum(gopacket.NetworkLayer) error
}

// layerAt decodes the case again and returns layer i (a fresh, unshared layer value)
func layerAt(c dspace.Case, i int) (gopacket.SerializableLayer, []byte) {
	p := gopacket.NewPacket(corpus.Exact(c.Data), c.First.Dec, gopacket.DecodeOptions{DecodeStreamsAsDatagrams: true})
	ls := p.Layers()
	if i >= len(ls) {
		return nil, nil
	}
	sl, ok := ls[i].(gopacket.SerializableLayer)
	if !ok {
		return nil, nil
	}
	if s, ok := ls[i].(setter); ok {
		if nl := p.NetworkLayer(); nl != nil {
			s.SetNetworkLayerForChecksum(nl)
		}
	}
	return sl, ls[i].LayerPayload()
}

type outcome struct {
	err   bool
	etext string
	bytes []byte
}

func write(sl gopacket.SerializableLayer, payload []byte, b gopacket.SerializeBuffer, o gopacket.SerializeOptions) (out outcome, panicked any) {
	defer func() { panicked = recover() }()
	if len(payload) > 0 {
		p, err := b.AppendBytes(len(payload))
		if err != nil {
			return outcome{err: true, etext: err.Error()}, nil
		}
		copy(p, payload)
	}
	if err := sl.SerializeTo(b, o); err != nil {
		return outcome{err: true, etext: err.Error()}, nil
	}
	return outcome{bytes: append([]byte(nil), b.Bytes()...)}, nil
}

func run(c dspace.Case, w *enum.Worker, nh int) {
	var n int
	if w.Guard("decode", func() {
		n = len(gopacket.NewPacket(corpus.Exact(c.Data), c.First.Dec, gopacket.DecodeOptions{DecodeStreamsAsDatagrams: true}).Layers())
	}) {
		return
	}
	for i := 0; i < n; i++ {
		// a packet of thousands of tiny layers (an input extended by filler bytes): each write
		// decodes the packet anew, which is quadratic; the first 24 and the last 8 layers are written
		if n > 32 && i >= 24 && i < n-8 {
			continue
		}
		sl0, _ := layerAt(c, i)
		if sl0 == nil {
			continue
		}
		lt := sl0.LayerType().String()
		for oi, o := range optSets {
			var ref outcome
			for h := 0; h < nh; h++ {
				sl, payload := layerAt(c, i)
				if sl == nil {
					break
				}
				out, pv := write(sl, payload, hists[h].mk(), o)
				w.Count("serializations", 1)
				if pv != nil {
					w.Violation("c07|panic|"+lt+"|"+report.PanicClass(pv), fmt.Sprintf("SerializeTo of a decoded %s panicked: %v (options %+v, buffer: %s)", lt, pv, o, hists[h].name))
					break
				}
				if h == 0 {
					ref = out
					if oi == 3 {
						w.OutcomeString(fmt.Sprintf("%s/%v/%d", lt, out.err, len(out.bytes)/16))
					}
					continue
				}
				if out.err != ref.err {
					w.Violation("c07|error-depends-on-buffer-history|"+lt, fmt.Sprintf("%s with options %+v: fresh buffer error=%v (%s), buffer %q error=%v (%s)", lt, o, ref.err, ref.etext, hists[h].name, out.err, out.etext))
				} else if !out.err && !bytes.Equal(out.bytes, ref.bytes) {
					w.Violation("c07|bytes-depend-on-buffer-history|"+lt, fmt.Sprintf("%s with options %+v: %s", lt, o, diff(ref.bytes, out.bytes, "fresh buffer", hists[h].name)))
				}
			}
			// the same layer value written three times in a row: from the second write on the bytes must repeat
			sl, payload := layerAt(c, i)
			if sl == nil {
				continue
			}
			var prev outcome
			for k := 0; k < 3; k++ {
				out, pv := write(sl, payload, gopacket.NewSerializeBuffer(), o)
				if pv != nil {
					w.Violation("c07|panic|"+lt+"|"+report.PanicClass(pv), fmt.Sprintf("SerializeTo (write %d of the same value) of a decoded %s panicked: %v", k+1, lt, pv))
					break
				}
				if k == 2 && (out.err != prev.err || !bytes.Equal(out.bytes, prev.bytes)) {
					w.Violation("c07|repeated-write-differs|"+lt, fmt.Sprintf("%s with options %+v: %s", lt, o, diff(prev.bytes, out.bytes, "second write", "third write")))
				}
				prev = out
			}
		}
	}
}

func diff(a, b []byte, na, nb string) string {
	if len(a) != len(b) {
		return fmt.Sprintf("%s gives %d bytes, %s gives %d bytes", na, len(a), nb, len(b))
	}
	for i := range a {
		if a[i] != b[i] {
			lo, hi := max(0, i-4), min(len(a), i+8)
			return fmt.Sprintf("byte %d of %d differs: %s ...%x..., %s ...%x...", i, len(a), na, a[lo:hi], nb, b[lo:hi])
		}
	}
	return "equal"
}

func main() {
	r := report.New("C07", "exploration")
	sp := dspace.Build(r.Thorough())
	phases := []enum.Phase{
		{Name: "decoded-layers", Len: sp.NeighLen(),
			Describe: func(i int64) any { return sp.NeighCase(i).Describe() },
			Run: func(i int64, w *enum.Worker) {
				c := sp.NeighCase(i)
				nh := 3
				if c.Dev == 0 || r.Thorough() {
					nh = len(hists)
				}
				run(c, w, nh)
			}},
		{Name: "cross-type", Len: sp.CrossLen(),
			Describe: func(i int64) any { return sp.CrossCase(i).Describe() },
			Run:      func(i int64, w *enum.Worker) { run(sp.CrossCase(i), w, 3) }},
	}
	phases = append(phases, builtPhases(r, sp)...)
	r.Coverage["rule"] = "every serializable layer of every packet decoded from the deviation<=1 neighbourhoods (including layers of packets that ended in an error layer) and from every seed decoded as every first layer: written over its own payload with each of the 4 FixLengths/ComputeChecksums combinations into buffers with different histories (fresh; cleared after holding 3000+3000 bytes of 0xAA/0x55; expected-size hints; unmodified seeds and the thorough tier: all 8 histories) - the layer is decoded anew for every write; all histories must agree on error-or-not and on the bytes; no panic; the same value written three times gives the same bytes the second and third time. distinct_nontrivial = distinct (layer type, error, output size class) outcomes."
	r.Assumptions = []string{"transport layers get the packet's network layer attached for checksums, as the API requires"}
	enum.Main(r, phases)
	r.Finish()
}
