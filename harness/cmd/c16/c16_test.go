// C16: PacketSource delivers each packet once, in order, intact, and shuts
// down cleanly. Quiescence-driven exploration inside testing/synctest bubbles.
package main

import (
	"context"
	"errors"
	"fmt"
	"io"
	"os"
	"runtime"
	"sync"
	"sync/atomic"
	"syscall"
	"testing"
	"testing/synctest"
	"time"

	"github.com/gopacket/gopacket"

	"verif/engine/bubble"
	"verif/engine/dfs"
	"verif/engine/report"
)

// ---- script -------------------------------------------------------------------

type kind int

const (
	kPkt kind = iota
	kPktTrunc
	kTimeout
	kTemp
	kTerminal
)

type item struct {
	k    kind
	term int // index into terminals
}

func (i item) String() string {
	switch i.k {
	case kPkt:
		return "Pkt"
	case kPktTrunc:
		return "PktTrunc"
	case kTimeout:
		return "Timeout"
	case kTemp:
		return "TempErr(" + tempErrs[i.term].Error() + ")"
	}
	return "Term(" + terminals[i.term].Error() + ")"
}

type timeoutErr struct{}

func (timeoutErr) Error() string   { return "i/o timeout" }
func (timeoutErr) Timeout() bool   { return true }
func (timeoutErr) Temporary() bool { return true }

var errTemp = errors.New("temporary glitch")

// a temporary network error that is not a timeout
type tempNetErr struct{}

func (tempNetErr) Error() string   { return "temporary network error" }
func (tempNetErr) Timeout() bool   { return false }
func (tempNetErr) Temporary() bool { return true }

// the transient (non-terminal, non-timeout) errors of the script alphabet; item.term selects one
var tempErrs = []error{errTemp, tempNetErr{}, syscall.EINTR}

var terminals = []error{io.EOF, io.ErrUnexpectedEOF, errors.New("read |0: use of closed file"), io.ErrNoProgress, io.ErrClosedPipe, io.ErrShortBuffer, syscall.EBADF, fmt.Errorf("wrapped: %w", io.EOF)}

type config struct {
	zero               bool
	lazy, nocopy, pool bool
	ctx                bool // PacketsCtx with a cancel action; else Packets()
	again              bool // a second PacketsCtx call is one of the actions
	late               bool // NoCopy is switched on just before that second call (zero-copy source)
}

func (c config) String() string {
	s := fmt.Sprintf("zeroCopySource=%v lazy=%v nocopy=%v pool=%v cancelable=%v secondCall=%v", c.zero, c.lazy, c.nocopy, c.pool, c.ctx, c.again)
	if c.late {
		s += " noCopySwitchedOnBeforeSecondCall=true"
	}
	return s
}

type scenario struct {
	script []item
	cfg    config
}

func (s scenario) String() string { return fmt.Sprintf("script=%v %s", s.script, s.cfg) }

func pktBytes(k int) []byte {
	n := 3 + k%3
	b := make([]byte, n)
	for i := range b {
		b[i] = byte(0x10*(k+1) + i)
	}
	return b
}

// ---- scripted data source -----------------------------------------------------

type source struct {
	zero       bool
	buf        []byte
	grant      chan item
	waiting    bool
	concurrent bool
	cancelled  bool
	afterCancl int
	reads      int
	pktNo      int
}

func (s *source) read() ([]byte, gopacket.CaptureInfo, error) {
	if s.waiting {
		s.concurrent = true
	}
	if s.cancelled {
		s.afterCancl++
	}
	s.reads++
	s.waiting = true
	it := <-s.grant
	s.waiting = false
	switch it.k {
	case kPkt, kPktTrunc:
		k := s.pktNo
		s.pktNo++
		d := pktBytes(k)
		ci := gopacket.CaptureInfo{Timestamp: time.Unix(int64(1000+k), int64(k)), CaptureLength: len(d), Length: len(d), InterfaceIndex: k}
		if it.k == kPktTrunc {
			ci.Length = len(d) + 7
		}
		if s.zero {
			// one buffer, overwritten by every read
			for i := range s.buf {
				s.buf[i] = 0xEE
			}
			copy(s.buf, d)
			return s.buf[:len(d)], ci, nil
		}
		return d, ci, nil
	case kTimeout:
		return nil, gopacket.CaptureInfo{}, timeoutErr{}
	case kTemp:
		return nil, gopacket.CaptureInfo{}, tempErrs[it.term]
	}
	return nil, gopacket.CaptureInfo{}, terminals[it.term]
}

func (s *source) ReadPacketData() ([]byte, gopacket.CaptureInfo, error)         { return s.read() }
func (s *source) ZeroCopyReadPacketData() ([]byte, gopacket.CaptureInfo, error) { return s.read() }

type result struct {
	viol    []string
	what    string
	outcome string
	trace   []int
}

type got struct {
	data  []byte
	ci    gopacket.CaptureInfo
	trunc bool
	p     gopacket.Packet
}

func runOnce(t *testing.T, sc scenario, c *dfs.Chooser) (res result) {
	var npk int
	for _, it := range sc.script {
		if it.k == kPkt || it.k == kPktTrunc {
			npk++
		}
	}
	var recv []got
	sawClosed := false
	refused := false
	var src *source
	cancelAtGrant := -1
	grants := 0
	secondSame := true
	lateAccepted := false
	var conPanic any
	var conStack []byte
	stuckClose := false
	dl, rp := bubble.Run(t, func() {
		src = &source{zero: sc.cfg.zero, buf: make([]byte, 64), grant: make(chan item)}
		var opts []gopacket.PacketSourceOption
		opts = append(opts, gopacket.WithLazy(sc.cfg.lazy), gopacket.WithNoCopy(sc.cfg.nocopy), gopacket.WithPool(sc.cfg.pool))
		var ps *gopacket.PacketSource
		if sc.cfg.zero {
			ps = gopacket.NewZeroCopyPacketSource(src, gopacket.DecodePayload, opts...)
		} else {
			ps = gopacket.NewPacketSource(src, gopacket.DecodePayload, opts...)
		}
		ctx, cancel := context.WithCancel(context.Background())
		defer cancel()
		var ch chan gopacket.Packet
		func() {
			defer func() {
				if r := recover(); r != nil {
					refused = true
				}
			}()
			if sc.cfg.ctx {
				ch = ps.PacketsCtx(ctx)
			} else {
				ch = ps.Packets()
			}
		}()
		synctest.Wait()
		if refused {
			return
		}
		con := bubble.NewActor("consumer")
		si := 0
		sleeping := false
		didCancel, didAgain := false, false
		recvCalls := 0
		recvOne := func() {
			p, ok := <-ch
			if !ok {
				sawClosed = true
				return
			}
			recv = append(recv, got{data: append([]byte(nil), p.Data()...), ci: p.Metadata().CaptureInfo, trunc: p.Metadata().Truncated, p: p})
		}
		grant := func() {
			it := item{k: kTerminal, term: 0}
			if si < len(sc.script) {
				it = sc.script[si]
				si++
			}
			grants++
			src.grant <- it
			sleeping = it.k == kTimeout || it.k == kTemp
			synctest.Wait()
		}
		for steps := 0; steps < 40; steps++ {
			type act int
			const (
				aGrant act = iota
				aRecv
				aTick
				aCancel
				aAgain
			)
			var en []act
			if src.waiting && si < len(sc.script) {
				en = append(en, aGrant)
			}
			if !con.InCall && con.Panic == nil && !sawClosed && recvCalls < npk+1 {
				en = append(en, aRecv)
			}
			if sleeping && !src.waiting {
				en = append(en, aTick)
			}
			if sc.cfg.ctx && !didCancel {
				en = append(en, aCancel)
			}
			if sc.cfg.again && !didAgain {
				en = append(en, aAgain)
			}
			if len(en) == 0 {
				break
			}
			switch en[c.Choose(len(en))] {
			case aGrant:
				grant()
			case aRecv:
				recvCalls++
				con.Start(recvOne)
			case aTick:
				sleeping = false
				time.Sleep(5 * time.Millisecond)
				synctest.Wait()
			case aCancel:
				didCancel = true
				src.cancelled = true
				cancelAtGrant = grants
				cancel()
				synctest.Wait()
			case aAgain:
				didAgain = true
				var ch2 chan gopacket.Packet
				if sc.cfg.late {
					// the configuration the channel interface refuses, reached after the first call
					ps.NoCopy = true
					func() {
						defer func() {
							if recover() == nil {
								lateAccepted = true
							}
							ps.NoCopy = false
						}()
						if sc.cfg.ctx {
							ps.PacketsCtx(ctx)
						} else {
							ps.Packets()
						}
					}()
					synctest.Wait()
					break
				}
				if sc.cfg.ctx {
					ch2 = ps.PacketsCtx(ctx)
				} else {
					ch2 = ps.Packets()
				}
				if ch2 != ch {
					secondSame = false
				}
				synctest.Wait()
			}
		}
		// teardown: let the producer run to its end (grant what it asks for, advance the clock)
		for i := 0; i < 12; i++ {
			if src.waiting {
				grant()
			} else if sleeping {
				sleeping = false
				time.Sleep(5 * time.Millisecond)
				synctest.Wait()
			} else {
				break
			}
		}
		// drain: everything sent must be receivable, then the channel must be closed
		if !con.InCall && con.Panic == nil && !sawClosed {
			con.Start(func() {
				for i := 0; i < npk+3 && !sawClosed; i++ {
					recvOne()
				}
			})
		}
		// a consumer still blocked here means the channel was never closed
		if con.InCall {
			stuckClose = true
		}
		conPanic, conStack = con.Panic, con.Stack
		con.Stop()
		if stuckClose {
			// unblock to leave the bubble cleanly where possible
			return
		}
	})
	res.trace = c.Trace()
	add := func(k, w string) { res.viol = append(res.viol, k); res.what = w }
	mustRefuse := sc.cfg.zero && sc.cfg.nocopy
	if mustRefuse {
		if !refused {
			add("refuse|zero-copy source with NoCopy on the channel interface is not refused", "PacketsCtx returned a channel")
		}
	} else if refused {
		add("refuse|PacketsCtx panicked for a legal configuration", "")
	}
	if rp != nil {
		add(fmt.Sprintf("harness|root-panic|%v", rp), "")
	}
	if conPanic != nil {
		k, _ := report.PanicKey(conPanic, conStack)
		add(k, fmt.Sprint(conPanic))
	}
	if refused {
		res.outcome = "refused"
		return
	}
	if stuckClose {
		add("shutdown|channel is never closed after the data source ended or the context was cancelled", "")
	} else if dl {
		add("shutdown|background reader goroutine still blocked after end of input / cancel", "")
	}
	if src.concurrent {
		add("single-reader|two reads of the data source in flight at once (second background reader)", "")
	}
	if lateAccepted {
		add("refuse|zero-copy source with NoCopy switched on after the first call is not refused on the next call", "PacketsCtx returned a channel")
	}
	if !secondSame {
		add("single-reader|second PacketsCtx call returned a different channel", "")
	}
	if src.afterCancl > 0 {
		add("cancel|data source read again after the context was cancelled", fmt.Sprintf("%d reads started after cancel", src.afterCancl))
	}
	// delivered sequence
	nBeforeCancel := npk // packets whose grant happened before cancel must all be delivered
	if cancelAtGrant >= 0 {
		nBeforeCancel = 0
		for i, it := range sc.script {
			if i >= cancelAtGrant {
				break
			}
			if it.k == kPkt || it.k == kPktTrunc {
				nBeforeCancel++
			}
		}
	}
	if len(recv) > npk {
		add("sequence|more packets delivered than the data source produced (duplicate)", "")
	}
	if !stuckClose && len(recv) < nBeforeCancel {
		add("sequence|a packet read from the data source was never delivered (lost)", fmt.Sprintf("delivered %d, produced before cancel/end %d", len(recv), nBeforeCancel))
	}
	if cancelAtGrant >= 0 && len(recv) > nBeforeCancel+1 {
		add("cancel|more than the one in-flight read delivered after cancel", "")
	}
	pk := 0
	truncOf := map[int]bool{}
	for _, it := range sc.script {
		if it.k == kPkt || it.k == kPktTrunc {
			truncOf[pk] = it.k == kPktTrunc
			pk++
		}
	}
	// pooled packets (this binary is built with the sync shim, so the packet block pool is a
	// plain stack the harness can see): the harness disposes nothing, so every delivered packet
	// is still undisposed; three more pooled decodes now take whatever blocks the library itself
	// returned to the pool - the delivered packets must not be among them
	if sc.cfg.pool && !sc.cfg.nocopy {
		var later []gopacket.Packet
		for k := 0; k < 3; k++ {
			fillb := make([]byte, 48)
			for i := range fillb {
				fillb[i] = 0xAB
			}
			later = append(later, gopacket.NewPacket(fillb, gopacket.DecodePayload, gopacket.DecodeOptions{Pool: true}))
		}
		for i, g := range recv {
			if i < npk && string(g.p.Data()) != string(pktBytes(i)) && string(g.data) == string(pktBytes(i)) {
				add("pool|a delivered, undisposed pooled packet shares its block with a later pooled packet", fmt.Sprintf("position %d reads %x after three later pooled decodes, was %x", i, g.p.Data(), pktBytes(i)))
				break
			}
		}
		_ = later
	}
	for i, g := range recv {
		if i >= npk {
			break
		}
		want := pktBytes(i)
		if string(g.data) != string(want) {
			add("sequence|packet delivered out of order or with wrong bytes", fmt.Sprintf("position %d: got %x want %x", i, g.data, want))
			break
		}
		if string(g.p.Data()) != string(want) {
			add("intact|delivered packet altered by later reads of the data source", fmt.Sprintf("position %d: now %x was %x", i, g.p.Data(), want))
			break
		}
		wl := len(want)
		if truncOf[i] {
			wl += 7
		}
		if g.ci.InterfaceIndex != i || g.ci.CaptureLength != len(want) || g.ci.Length != wl || !g.ci.Timestamp.Equal(time.Unix(int64(1000+i), int64(i))) {
			add("metadata|packet does not carry the capture info it was read with", fmt.Sprintf("position %d: %+v", i, g.ci))
			break
		}
		if g.trunc != truncOf[i] {
			add("metadata|truncated flag wrong", fmt.Sprintf("position %d: truncated=%v want %v", i, g.trunc, truncOf[i]))
			break
		}
	}
	extra := 0
	if cancelAtGrant >= 0 && len(recv) > nBeforeCancel {
		extra = 1
	}
	if cancelAtGrant >= 0 {
		// after a cancel the uncontrolled ready-ready select decides whether one more packet is
		// sent (and, on a broken tree, whether the loop goes on reading): compare only what the
		// select cannot influence
		res.outcome = fmt.Sprintf("n>=%d cancelAt=%d", nBeforeCancel, cancelAtGrant)
	} else {
		res.outcome = fmt.Sprintf("n=%d closed=%v reads=%d viol=%d", len(recv)-extra, sawClosed, src.reads, len(res.viol))
	}
	return
}

// ---- sequential parts: NextPacket and ConcatFinitePacketDataSources -------------

type seqSource struct {
	items []item
	i     int
	pktNo *int
	zero  bool
	buf   []byte
}

func (s *seqSource) ReadPacketData() ([]byte, gopacket.CaptureInfo, error) {
	if s.i >= len(s.items) {
		return nil, gopacket.CaptureInfo{}, io.EOF
	}
	it := s.items[s.i]
	s.i++
	switch it.k {
	case kPkt, kPktTrunc:
		k := *s.pktNo
		*s.pktNo++
		d := pktBytes(k)
		ci := gopacket.CaptureInfo{Timestamp: time.Unix(int64(1000+k), int64(k)), CaptureLength: len(d), Length: len(d), InterfaceIndex: k}
		if it.k == kPktTrunc {
			ci.Length += 7
		}
		if s.zero {
			for i := range s.buf {
				s.buf[i] = 0xEE
			}
			copy(s.buf, d)
			return s.buf[:len(d)], ci, nil
		}
		return d, ci, nil
	case kTimeout:
		return nil, gopacket.CaptureInfo{}, timeoutErr{}
	case kTemp:
		return nil, gopacket.CaptureInfo{}, tempErrs[it.term]
	}
	return nil, gopacket.CaptureInfo{}, terminals[it.term]
}
func (s *seqSource) ZeroCopyReadPacketData() ([]byte, gopacket.CaptureInfo, error) {
	return s.ReadPacketData()
}

// pull interface: results map 1:1 onto the script
func checkPull(r *report.Run, script []item, cfg config, idx int64) int64 {
	n := 0
	src := &seqSource{items: script, pktNo: &n, zero: cfg.zero, buf: make([]byte, 64)}
	opts := []gopacket.PacketSourceOption{gopacket.WithLazy(cfg.lazy), gopacket.WithNoCopy(cfg.nocopy), gopacket.WithPool(cfg.pool)}
	var ps *gopacket.PacketSource
	if cfg.zero {
		ps = gopacket.NewZeroCopyPacketSource(src, gopacket.DecodePayload, opts...)
	} else {
		ps = gopacket.NewPacketSource(src, gopacket.DecodePayload, opts...)
	}
	bad := func(k, w string) {
		r.Violation("pull|"+k, fmt.Sprintf("%s; script=%v %s", w, script, cfg), idx, map[string]any{"family": "pull", "script": fmt.Sprint(script), "config": cfg.String()})
	}
	pk := 0
	var held []gopacket.Packet
	for _, it := range script {
		p, err := ps.NextPacket()
		switch it.k {
		case kPkt, kPktTrunc:
			if err != nil || p == nil {
				bad("packet expected", fmt.Sprintf("item %v gave err=%v", it, err))
				return int64(len(script))
			}
			want := pktBytes(pk)
			if string(p.Data()) != string(want) || p.Metadata().InterfaceIndex != pk || p.Metadata().CaptureLength != len(want) || p.Metadata().Truncated != (it.k == kPktTrunc) {
				bad("wrong packet", fmt.Sprintf("item %d: data %x meta %+v", pk, p.Data(), p.Metadata()))
			}
			if !(cfg.zero && cfg.nocopy) {
				held = append(held, p)
			}
			pk++
		default:
			var want error
			switch it.k {
			case kTimeout:
				want = timeoutErr{}
			case kTemp:
				want = tempErrs[it.term]
			default:
				want = terminals[it.term]
			}
			if p != nil || err != want {
				bad("error expected", fmt.Sprintf("item %v gave packet=%v err=%v", it, p != nil, err))
			}
		}
	}
	for k := 0; k < 2; k++ {
		if p, err := ps.NextPacket(); p != nil || err != io.EOF {
			bad("phantom packet", fmt.Sprintf("call %d after the script ended: packet=%v err=%v, the source reported io.EOF", k+1, p != nil, err))
			break
		}
	}
	for i, p := range held {
		if string(p.Data()) != string(pktBytes(i)) {
			bad("intact", fmt.Sprintf("packet %d altered by later reads: %x", i, p.Data()))
			break
		}
	}
	return int64(len(script))
}

// concat: every split of a packet/transient script over 0..3 sources yields the same sequence and
// then end of input - for good: reads after the end keep reporting io.EOF and never invent a
// packet; the same through a PacketSource's pull interface on top of the concatenation.
func checkConcat(r *report.Run, script []item, idx int64) int64 {
	var evals int64
	n := len(script)
	type split struct{ nsrc, a, b int }
	var splits []split
	if n == 0 {
		splits = append(splits, split{0, 0, 0})
	}
	splits = append(splits, split{1, n, n})
	for a := 0; a <= n; a++ {
		splits = append(splits, split{2, a, n})
		for b := a; b <= n; b++ {
			splits = append(splits, split{3, a, b})
		}
	}
	for _, sp := range splits {
		for mode := 0; mode < 2; mode++ {
			cnt := 0
			srcs := []gopacket.PacketDataSource{
				&seqSource{items: script[:sp.a], pktNo: &cnt},
				&seqSource{items: script[sp.a:sp.b], pktNo: &cnt},
				&seqSource{items: script[sp.b:], pktNo: &cnt}}[:sp.nsrc]
			cs := gopacket.ConcatFinitePacketDataSources(srcs...)
			read := cs.ReadPacketData
			if mode == 1 {
				ps := gopacket.NewPacketSource(cs, gopacket.DecodePayload)
				read = func() ([]byte, gopacket.CaptureInfo, error) {
					p, err := ps.NextPacket()
					if p == nil {
						return nil, gopacket.CaptureInfo{}, err
					}
					return p.Data(), p.Metadata().CaptureInfo, err
				}
			}
			evals++
			pk := 0
			why := ""
			for _, it := range script {
				d, ci, err := read()
				switch it.k {
				case kPkt, kPktTrunc:
					if err != nil || string(d) != string(pktBytes(pk)) || ci.InterfaceIndex != pk {
						why = fmt.Sprintf("packet %d: data %x err %v", pk, d, err)
					}
					pk++
				case kTimeout:
					if err != (timeoutErr{}) {
						why = fmt.Sprintf("timeout item gave err %v", err)
					}
				case kTemp:
					if err != tempErrs[it.term] {
						why = fmt.Sprintf("transient item gave err %v", err)
					}
				}
			}
			for k := 0; k < 3 && why == ""; k++ {
				if d, _, err := read(); err != io.EOF || d != nil {
					why = fmt.Sprintf("read %d after the last item: data=%v err=%v, want end of input", k+1, d != nil, err)
				}
			}
			if why != "" {
				r.Violation("concat|sequence differs from the concatenation of the sources", fmt.Sprintf("%s; script=%v over %d sources split at %d,%d (through PacketSource.NextPacket: %v)", why, script, sp.nsrc, sp.a, sp.b, mode == 1), idx, map[string]any{"family": "concat", "script": fmt.Sprint(script), "sources": sp.nsrc, "split": []int{sp.a, sp.b}})
			}
		}
	}
	return evals
}

// ---- driver -------------------------------------------------------------------

func scripts(maxItems int, nterm int) [][]item {
	var out [][]item
	var rec func(p []item)
	rec = func(p []item) {
		for ti := 0; ti < nterm; ti++ {
			out = append(out, append(append([]item(nil), p...), item{k: kTerminal, term: ti}))
		}
		if len(p) == maxItems {
			return
		}
		for _, k := range []kind{kPkt, kPktTrunc, kTimeout} {
			rec(append(p, item{k: k}))
		}
		for ti := range tempErrs {
			rec(append(p, item{k: kTemp, term: ti}))
		}
	}
	rec(nil)
	return out
}

func TestExplore(t *testing.T) {
	r := report.New("C16", "model_checking")
	maxItems, nterm := 3, 3
	if r.Thorough() {
		maxItems, nterm = 4, len(terminals)
	}
	all := scripts(maxItems, nterm)
	var scen []scenario
	// F1: every script x every source/option configuration, Packets()
	for _, s := range all {
		for k := 0; k < 16; k++ {
			scen = append(scen, scenario{s, config{zero: k&1 != 0, lazy: k&2 != 0, nocopy: k&4 != 0, pool: k&8 != 0}})
		}
	}
	// F2: cancellation at every point
	for _, s := range all {
		for _, cfg := range []config{{ctx: true}, {ctx: true, zero: true, pool: true}, {ctx: true, lazy: true, nocopy: true}} {
			scen = append(scen, scenario{s, cfg})
		}
	}
	// F3: second PacketsCtx call at every point (short scripts)
	for _, s := range scripts(2, 1) {
		scen = append(scen, scenario{s, config{again: true}}, scenario{s, config{again: true, ctx: true}},
			scenario{s, config{again: true, zero: true, late: true}}, scenario{s, config{again: true, ctx: true, zero: true, late: true}})
	}
	if rp := os.Getenv("VERIF_REPLAY"); rp != "" {
		replay(t, rp, scen)
		return
	}
	var execs, points, replays, mismatch, seqEvals int64
	var mu sync.Mutex
	outcomes := map[string]struct{}{}
	var samples []any
	maxDepth := 0
	var idx int64 = -1
	var wg sync.WaitGroup
	for s := 0; s < runtime.NumCPU(); s++ {
		wg.Add(1)
		go func() {
			defer wg.Done()
			local := map[string]struct{}{}
			for {
				i := atomic.AddInt64(&idx, 1)
				if i >= int64(len(scen)) || r.Expired() {
					break
				}
				sc := scen[i]
				st := dfs.Explore(-1, 0, nil, func(c *dfs.Chooser) {
					res := runOnce(t, sc, c)
					local[res.outcome] = struct{}{}
					for _, v := range res.viol {
						r.Violation(v, fmt.Sprintf("%s; %s; actions %v", res.what, sc, res.trace), i, map[string]any{"scenario_index": i, "scenario": sc.String(), "schedule": res.trace})
					}
					if (i+int64(len(res.trace)*31))%53 == r.Seed%53 {
						res2 := replayTrace(t, sc, res.trace)
						atomic.AddInt64(&replays, 1)
						if res2.outcome != res.outcome {
							atomic.AddInt64(&mismatch, 1)
							fmt.Printf("# replay mismatch: %s trace %v: %q vs %q\n", sc, res.trace, res.outcome, res2.outcome)
						}
					}
				})
				atomic.AddInt64(&execs, st.Executions)
				atomic.AddInt64(&points, st.Points)
				mu.Lock()
				if st.MaxDepth > maxDepth {
					maxDepth = st.MaxDepth
				}
				if len(samples) < 4 && i%701 == 3 {
					samples = append(samples, sc.String())
				}
				mu.Unlock()
			}
			mu.Lock()
			for k := range local {
				outcomes[k] = struct{}{}
			}
			mu.Unlock()
		}()
	}
	wg.Wait()
	// sequential families
	for i, s := range all {
		for k := 0; k < 16; k++ {
			seqEvals += checkPull(r, s, config{zero: k&1 != 0, lazy: k&2 != 0, nocopy: k&4 != 0, pool: k&8 != 0}, int64(i))
		}
		body := s[:len(s)-1]
		seqEvals += checkConcat(r, body, int64(i))
	}
	// long scenario: 1001 packets, stalled consumer, cancel while the channel is full
	longScenario(t, r)
	if mismatch > 0 && r.NumViolationClasses() == 0 {
		fmt.Printf("INTERNAL ERROR: %d of %d replayed schedules gave a different outcome\n", mismatch, replays)
		os.Exit(2)
	}
	r.Coverage["replay_mismatches"] = mismatch
	r.Coverage["states"] = execs
	r.Coverage["transitions"] = points
	r.Coverage["traces_validated_against_impl"] = execs
	r.Coverage["traces_replayed_twice_identical"] = replays
	r.Coverage["scenarios"] = len(scen)
	r.Coverage["scripts"] = len(all)
	r.Coverage["sequential_pull_and_concat_evaluations"] = seqEvals
	r.Coverage["distinct_outcomes"] = len(outcomes)
	r.Coverage["max_schedule_depth"] = maxDepth
	r.Coverage["samples"] = samples
	r.Coverage["explanation"] = "states = complete executions of the real PacketSource inside synctest bubbles; transitions = explorer actions (grant next data-source item, consumer receive, advance fake clock 5ms, cancel, second PacketsCtx call) chosen exhaustively at every quiescent point. The one uncontrolled choice, Go's select between a ready send and a ready ctx.Done, is accepted either way by the oracle and excluded from the replay comparison."
	r.Assumptions = []string{"testing/synctest quiescence and virtual time", "scripts of <=3 items (thorough 4) before the terminal error", "the ready-ready select in packetsToChannel is not controlled; both outcomes are accepted"}
	r.Finish()
}

func longScenario(t *testing.T, r *report.Run) {
	var recvN int
	closed, stuck := false, false
	dl, _ := bubble.Run(t, func() {
		src := &source{grant: make(chan item), buf: make([]byte, 64)}
		ps := gopacket.NewPacketSource(src, gopacket.DecodePayload)
		ctx, cancel := context.WithCancel(context.Background())
		defer cancel()
		ch := ps.PacketsCtx(ctx)
		synctest.Wait()
		for i := 0; i < 1001 && src.waiting; i++ {
			src.grant <- item{k: kPkt}
			synctest.Wait()
		}
		// producer now blocked sending packet 1001 into the full channel
		src.cancelled = true
		cancel()
		synctest.Wait()
		con := bubble.NewActor("consumer")
		con.Start(func() {
			for i := 0; i < 1100; i++ {
				if _, ok := <-ch; !ok {
					closed = true
					return
				}
				recvN++
			}
		})
		stuck = con.InCall
		con.Stop()
		if src.afterCancl > 0 {
			r.Violation("cancel|data source read again after the context was cancelled", "long scenario", 1<<40, map[string]any{"family": "long"})
		}
	})
	if stuck || dl || !closed {
		r.Violation("shutdown|stalled consumer: producer blocked on a full channel does not stop on cancel", fmt.Sprintf("received %d closed=%v", recvN, closed), 1<<40, map[string]any{"family": "long"})
	}
	if recvN != 1000 && recvN != 1001 {
		r.Violation("sequence|stalled consumer: wrong number of packets after cancel", fmt.Sprintf("received %d", recvN), 1<<40, map[string]any{"family": "long"})
	}
}

func replayTrace(t *testing.T, sc scenario, trace []int) result {
	var res result
	dfs.ExploreFrom(trace, -1, 1, nil, func(c *dfs.Chooser) { res = runOnce(t, sc, c) })
	return res
}

func replay(t *testing.T, path string, scen []scenario) {
	var f struct {
		Replay struct {
			Index    int64  `json:"scenario_index"`
			Schedule []int  `json:"schedule"`
			Family   string `json:"family"`
		} `json:"replay"`
	}
	report.ReadJSON(path, &f)
	if f.Replay.Family != "" {
		fmt.Println("sequential family", f.Replay.Family, ": re-run the whole check (sub-second part)")
		os.Exit(0)
	}
	sc := scen[f.Replay.Index]
	fmt.Println("replaying:", sc, "actions", f.Replay.Schedule)
	res := replayTrace(t, sc, f.Replay.Schedule)
	for _, v := range res.viol {
		fmt.Println("REPRODUCED", v, res.what)
	}
	if len(res.viol) > 0 {
		os.Exit(1)
	}
	fmt.Println("no violation reproduced")
	os.Exit(0)
}
