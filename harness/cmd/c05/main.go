// C05: preallocated-layer decoding equals packet decoding and keeps no stale state.
package main

import (
	"encoding/hex"
	"fmt"
	"strings"

	"github.com/gopacket/gopacket"
	"github.com/gopacket/gopacket/layers"

	"verif/engine/corpus"
	"verif/engine/dspace"
	"verif/engine/enum"
	"verif/engine/report"
	"verif/engine/sig"
	"verif/gen"
)

// ---- universe ----------------------------------------------------------------------

type member struct {
	name string
	lt   gopacket.LayerType
	mk   func() gopacket.DecodingLayer
}

var universe = []member{
	{"Ethernet", layers.LayerTypeEthernet, func() gopacket.DecodingLayer { return &layers.Ethernet{} }},
	{"Dot1Q", layers.LayerTypeDot1Q, func() gopacket.DecodingLayer { return &layers.Dot1Q{} }},
	{"ARP", layers.LayerTypeARP, func() gopacket.DecodingLayer { return &layers.ARP{} }},
	{"IPv4", layers.LayerTypeIPv4, func() gopacket.DecodingLayer { return &layers.IPv4{} }},
	{"IPv6", layers.LayerTypeIPv6, func() gopacket.DecodingLayer { return &layers.IPv6{} }},
	{"TCP", layers.LayerTypeTCP, func() gopacket.DecodingLayer { return &layers.TCP{} }},
	{"UDP", layers.LayerTypeUDP, func() gopacket.DecodingLayer { return &layers.UDP{} }},
	{"ICMPv4", layers.LayerTypeICMPv4, func() gopacket.DecodingLayer { return &layers.ICMPv4{} }},
	{"ICMPv6", layers.LayerTypeICMPv6, func() gopacket.DecodingLayer { return &layers.ICMPv6{} }},
	{"DNS", layers.LayerTypeDNS, func() gopacket.DecodingLayer { return &layers.DNS{} }},
	{"Payload", gopacket.LayerTypePayload, func() gopacket.DecodingLayer { p := gopacket.Payload(nil); return &p }},
	{"Fragment", gopacket.LayerTypeFragment, func() gopacket.DecodingLayer { f := gopacket.Fragment(nil); return &f }},
}

var firsts = []gopacket.LayerType{layers.LayerTypeEthernet, layers.LayerTypeIPv4, layers.LayerTypeIPv6}

var skipFields = map[string]bool{"pseudoheader": true, "tcpipchecksum": true, "layers.tcpipchecksum": true}

// custom container: a plain slice, so LayersDecoder's generic closure is used
type sliceContainer []gopacket.DecodingLayer

func (s sliceContainer) Put(d gopacket.DecodingLayer) gopacket.DecodingLayerContainer {
	return append(s, d)
}
func (s sliceContainer) Decoder(t gopacket.LayerType) (gopacket.DecodingLayer, bool) {
	for i := len(s) - 1; i >= 0; i-- {
		if s[i].CanDecode().Contains(t) {
			return s[i], true
		}
	}
	return nil, false
}
func (s sliceContainer) LayersDecoder(first gopacket.LayerType, df gopacket.DecodeFeedback) gopacket.DecodingLayerFunc {
	return gopacket.LayersDecoder(s, first, df)
}

var containerNames = []string{"map", "sparse", "array", "custom-slice"}

func emptyContainer(k int) gopacket.DecodingLayerContainer {
	switch k {
	case 0:
		return gopacket.DecodingLayerMap(nil)
	case 1:
		return gopacket.DecodingLayerSparse(nil)
	case 2:
		return gopacket.DecodingLayerArray(nil)
	}
	return sliceContainer(nil)
}

// build a parser over the members selected by mask. how=0: container filled with Put, then
// installed; how=1: empty container installed, layers added with AddDecodingLayer; how=2: the
// layers are handed to the constructor NewDecodingLayerParser(first, layers...) and the
// container it builds is never replaced (cont is ignored).
func build(first gopacket.LayerType, mask int, cont, how int) (*gopacket.DecodingLayerParser, map[gopacket.LayerType]gopacket.DecodingLayer) {
	objs := map[gopacket.LayerType]gopacket.DecodingLayer{}
	if how == 2 {
		var ls []gopacket.DecodingLayer
		for i, m := range universe {
			if mask&(1<<i) != 0 {
				o := m.mk()
				objs[m.lt] = o
				ls = append(ls, o)
			}
		}
		return gopacket.NewDecodingLayerParser(first, ls...), objs
	}
	p := gopacket.NewDecodingLayerParser(first)
	c := emptyContainer(cont)
	if how == 1 {
		p.SetDecodingLayerContainer(c)
	}
	for i, m := range universe {
		if mask&(1<<i) == 0 {
			continue
		}
		o := m.mk()
		objs[m.lt] = o
		if how == 0 {
			c = c.Put(o)
		} else {
			p.AddDecodingLayer(o)
		}
	}
	if how == 0 {
		p.SetDecodingLayerContainer(c)
	}
	return p, objs
}

// ---- reference: packet decoding observed through a wrapper builder ---------------------

type call struct {
	start  int // layers in the packet when the decoder call began
	failed bool
}

type trace struct {
	n      int // layers added to the packet so far
	calls  []call
	trunc  []int // start index of the call that was active when SetTruncated was called
	active []int
}

type wdec struct {
	inner gopacket.Decoder
	t     *trace
}

type wpb struct {
	gopacket.PacketBuilder
	t *trace
}

func (w *wpb) AddLayer(l gopacket.Layer) { w.t.n++; w.PacketBuilder.AddLayer(l) }
func (w *wpb) SetTruncated() {
	if len(w.t.active) > 0 {
		w.t.trunc = append(w.t.trunc, w.t.calls[w.t.active[len(w.t.active)-1]].start)
	}
	w.PacketBuilder.SetTruncated()
}
func (w *wpb) NextDecoder(next gopacket.Decoder) error {
	if next == nil {
		return w.PacketBuilder.NextDecoder(nil)
	}
	return w.PacketBuilder.NextDecoder(wdec{next, w.t})
}

func (w wdec) Decode(data []byte, pb gopacket.PacketBuilder) error {
	real := pb
	if x, ok := pb.(*wpb); ok {
		real = x.PacketBuilder
	}
	idx := len(w.t.calls)
	w.t.calls = append(w.t.calls, call{start: w.t.n})
	w.t.active = append(w.t.active, idx)
	returned := false
	defer func() {
		if !returned {
			w.t.calls[idx].failed = true
		}
		w.t.active = w.t.active[:len(w.t.active)-1]
	}()
	err := w.inner.Decode(data, &wpb{PacketBuilder: real, t: w.t})
	returned = true
	if err != nil {
		w.t.calls[idx].failed = true
	}
	return err
}

type reference struct {
	layers   []gopacket.Layer
	failAt   int // index of the first layer not fully decoded (len(layers) if none failed)
	truncAt  []int
	anyError bool
}

func refDecode(data []byte, first gopacket.LayerType) (r reference, ok bool) {
	defer func() {
		if recover() != nil {
			ok = false
		}
	}()
	t := &trace{}
	p := gopacket.NewPacket(corpus.Exact(data), wdec{first, t}, gopacket.DecodeOptions{DecodeStreamsAsDatagrams: true})
	r.layers = p.Layers()
	r.failAt = len(r.layers)
	for _, c := range t.calls {
		if c.failed {
			r.anyError = true
			if c.start < r.failAt {
				r.failAt = c.start
			}
		}
	}
	// innermost failing call = the one with the largest start among failed ones
	inner := -1
	for _, c := range t.calls {
		if c.failed && c.start > inner {
			inner = c.start
		}
	}
	if inner >= 0 {
		r.failAt = inner
	}
	r.truncAt = t.trunc
	return r, true
}

// expected result of the parser for a member set
type expectation struct {
	types     []gopacket.LayerType
	objs      []gopacket.Layer
	class     string             // "", "unsupported:<type>", "error"
	failType  gopacket.LayerType // type whose decoding failed (class "error")
	truncated bool
}

func expect(r reference, first gopacket.LayerType, in func(gopacket.LayerType) bool) (e expectation) {
	if !in(first) {
		e.class = "unsupported:" + first.String()
		return
	}
	last := -1
	for i, l := range r.layers {
		t := l.LayerType()
		if i >= r.failAt && t == gopacket.LayerTypeDecodeFailure {
			// the decoder failed before adding a layer: the type it was decoding is what the
			// layer in front announced
			t = gopacket.LayerTypeZero
			if i > 0 {
				if d, ok := r.layers[i-1].(gopacket.DecodingLayer); ok {
					t = d.NextLayerType()
				}
			} else {
				t = first
			}
		}
		if t == layers.LayerTypeIPv6HopByHop && i > 0 && i < r.failAt && r.layers[i-1].LayerType() == layers.LayerTypeIPv6 {
			continue // decodeIPv6 adds the hop-by-hop header as a layer of its own; the IPv6 decoding layer keeps it inside
		}
		if !in(t) {
			e.class = "unsupported:" + t.String()
			last = i - 1
			break
		}
		if i >= r.failAt {
			e.class = "error"
			e.failType = t
			last = i
			break
		}
		e.types = append(e.types, t)
		e.objs = append(e.objs, l)
		last = i
	}
	for _, s := range r.truncAt {
		if s <= last {
			e.truncated = true
		}
	}
	return
}

func errClass(err error) string {
	if err == nil {
		return ""
	}
	if u, ok := err.(gopacket.UnsupportedLayerType); ok {
		return "unsupported:" + gopacket.LayerType(u).String()
	}
	return "error"
}

var junk = []gopacket.LayerType{layers.LayerTypeSCTP, layers.LayerTypeGRE, layers.LayerTypeSCTP}

type ctx struct{ w *enum.Worker }

func (x *ctx) fail(c dspace.Case, clause, detail string, cfg string) {
	x.w.ViolationCase("c05|"+clause, detail+"; "+cfg, map[string]any{"case": c.Describe(), "config": cfg})
}

// one parse with one configuration against the expectation
func (x *ctx) parse(c dspace.Case, r reference, first gopacket.LayerType, mask, cont, how int, ignoreUnsup, deep bool) {
	cfg := fmt.Sprintf("first=%v set=%s container=%s filled-by=%s IgnoreUnsupported=%v", first, maskNames(mask), containerNames[cont], [...]string{"Put", "AddDecodingLayer", "constructor"}[how], ignoreUnsup)
	p, objs := build(first, mask, cont, how)
	p.IgnoreUnsupported = ignoreUnsup
	in := func(t gopacket.LayerType) bool { _, ok := objs[t]; return ok }
	e := expect(r, first, in)
	decoded := append([]gopacket.LayerType(nil), junk...)
	err := p.DecodeLayers(corpus.Exact(c.Data), &decoded)
	got := errClass(err)
	want := e.class
	if ignoreUnsup && strings.HasPrefix(want, "unsupported:") {
		want = ""
	}
	x.w.Count("parses", 1)
	// the statement speaks about the run of layers, their fields and the truncation flag; of
	// the error only this is judged: a decode error where packet decoding had none
	_ = want
	if got == "error" && e.class != "error" {
		x.fail(c, "decode-error-where-packet-decoding-has-none", fmt.Sprintf("DecodeLayers returned %v, packet decoding decoded the run without error (packet layers %v)", err, typesOf(r.layers)), cfg)
		return
	}
	if fmt.Sprint(decoded) != fmt.Sprint(e.types) {
		if e.class == "unsupported:"+first.String() && fmt.Sprint(decoded) == fmt.Sprint(junk) {
			x.fail(c, "decoded-not-reset-when-first-layer-unsupported", fmt.Sprintf("decoded still holds the caller's old entries %v", decoded), cfg)
		} else {
			x.fail(c, "layer-run-differs", fmt.Sprintf("DecodeLayers reported %v, the leading run of the packet's layers inside the set is %v (packet layers %v)", decoded, e.types, typesOf(r.layers)), cfg)
		}
		return
	}
	if p.Truncated != e.truncated {
		x.fail(c, "truncated-flag-differs", fmt.Sprintf("parser.Truncated=%v, packet decoding set truncated within the run: %v", p.Truncated, e.truncated), cfg)
	}
	if !deep {
		return
	}
	lastIdx := map[gopacket.LayerType]int{}
	for i, t := range e.types {
		lastIdx[t] = i
	}
	for i, t := range e.types {
		if lastIdx[t] != i || (e.class == "error" && e.failType == t) {
			continue // the one preallocated object of this type holds the last layer of the type (or the failed attempt at one)
		}
		a, b := observable(objs[t]), observable(e.objs[i])
		if a != b {
			x.fail(c, "layer-fields-differ|"+t.String(), fmt.Sprintf("layer %d (%v): preallocated object %s packet layer %s", i, t, firstDiff(a, b), ""), cfg)
			return
		}
	}
}

// observable: exported fields (deep), plus what the layer's methods report
func observable(l any) (s string) {
	defer func() {
		if r := recover(); r != nil {
			s += fmt.Sprint(" PANIC:", r)
		}
	}()
	s = sig.DeepExported(l, skipFields)
	if d, ok := l.(gopacket.DecodingLayer); ok {
		s += fmt.Sprintf(" next=%v payload=%x", d.NextLayerType(), d.LayerPayload())
	}
	if x, ok := l.(gopacket.LinkLayer); ok {
		s += " linkflow=" + x.LinkFlow().String()
	}
	if x, ok := l.(gopacket.NetworkLayer); ok {
		s += " netflow=" + x.NetworkFlow().String()
	}
	if x, ok := l.(gopacket.TransportLayer); ok {
		s += " transportflow=" + x.TransportFlow().String()
	}
	if x, ok := l.(gopacket.Layer); ok {
		s += " string=" + sig.SafeLayerString(x)
	}
	return s
}

func firstDiff(a, b string) string {
	i := 0
	for i < len(a) && i < len(b) && a[i] == b[i] {
		i++
	}
	s := i - 60
	if s < 0 {
		s = 0
	}
	return fmt.Sprintf("...%.160s  VS  ...%.160s", a[s:], b[s:])
}

func typesOf(ls []gopacket.Layer) []gopacket.LayerType {
	var o []gopacket.LayerType
	for _, l := range ls {
		o = append(o, l.LayerType())
	}
	return o
}

func maskNames(mask int) string {
	if mask == 1<<len(universe)-1 {
		return "all"
	}
	var n []string
	for i, m := range universe {
		if mask&(1<<i) != 0 {
			n = append(n, m.name)
		}
	}
	return "{" + strings.Join(n, ",") + "}"
}

func firstOf(c dspace.Case) (gopacket.LayerType, bool) {
	switch c.First.Name {
	case "LayerType:Ethernet", "LinkType:1":
		return layers.LayerTypeEthernet, true
	case "LayerType:IPv4":
		return layers.LayerTypeIPv4, true
	case "LayerType:IPv6":
		return layers.LayerTypeIPv6, true
	}
	return 0, false
}

func main() {
	r := report.New("C05", "exploration")
	sp := dspace.Build(r.Thorough())
	// cases of the three first layers only
	var idx []int64
	for i := int64(0); i < sp.NeighLen(); i++ {
		// cheap pre-filter by seed: NeighCase is O(log n)
		c := sp.NeighCase(i)
		if _, ok := firstOf(c); ok {
			idx = append(idx, i)
		} else {
			// skip the rest of this seed's neighbourhood
			i += sp.Neigh.Count(len(sp.TSeeds[c.SeedIdx].Data)) - 1 - (i - seedStart(sp, c.SeedIdx))
		}
	}
	// and the length-field deviations beyond the header region of the same seeds
	for j := int64(0); j < sp.DeepLen(); j++ {
		if _, ok := firstOf(sp.DeepCase(j)); ok {
			idx = append(idx, sp.NeighLen()+j)
		}
	}
	full := 1<<len(universe) - 1
	x := &ctx{}
	// stale-state corpus: unmodified seeds of the three first layers
	var K []dspace.Case
	for _, s := range sp.Natural {
		c := dspace.Case{First: s.First, Data: s.Data, Seed: s.Name}
		if _, ok := firstOf(c); ok {
			K = append(K, c)
		}
	}
	for si, t := range sp.TSeeds {
		c := dspace.Case{First: t.First, Data: t.Data, Seed: t.Name, SeedIdx: si}
		if _, ok := firstOf(c); ok {
			K = append(K, c)
		}
	}
	// packets decoded FIRST into the shared objects: the same seeds, and each seed cut to two
	// thirds of its length (a truncated packet, so flags and half-filled layers are left behind)
	KA := append([]dspace.Case(nil), K...)
	for _, c := range K {
		if n := len(c.Data) * 2 / 3; n > 0 {
			t := c
			t.Data, t.Seed, t.Dev = corpus.Exact(c.Data[:n]), c.Seed+" cut to 2/3", 1
			KA = append(KA, t)
		}
	}
	phases := []enum.Phase{
		{Name: "equivalence", Len: int64(len(idx)),
			Describe: func(i int64) any { return sp.NeighDeepCase(idx[i]).Describe() },
			Run: func(i int64, w *enum.Worker) {
				x.w = w
				c := sp.NeighDeepCase(idx[i])
				first, _ := firstOf(c)
				w.Guard("harness", func() {
					ref, ok := refDecode(c.Data, first)
					if !ok {
						return
					}
					w.OutcomeString(fmt.Sprint(typesOf(ref.layers), ref.failAt))
					// full set: every container, both ways of filling it, deep comparison
					for cont := 0; cont < 4; cont++ {
						for how := 0; how < 3; how++ {
							if how == 2 && cont != 0 {
								continue // the constructor picks its own container
							}
							x.parse(c, ref, first, full, cont, how, false, cont == 0 && how == 0)
						}
					}
					x.parse(c, ref, first, full, 0, 0, true, false)
					// every 11-subset (one member missing), map and array containers
					for m := range universe {
						x.parse(c, ref, first, full&^(1<<m), 0, 2*(m%2), false, true)
						x.parse(c, ref, first, full&^(1<<m), 2, 1, m%2 == 0, false)
					}
					// unmodified seeds: every subset of the universe
					if c.Dev == 0 {
						for mask := 0; mask <= full; mask++ {
							x.parse(c, ref, first, mask, int(mask)%4, (mask>>2)%2, false, false)
						}
						for _, f := range firsts {
							if f != first {
								r2, ok := refDecode(c.Data, f)
								if ok {
									x.parse(c, r2, f, full, 0, 0, false, true)
								}
							}
						}
					}
				})
			}},
		{Name: "stale-state-pairs", Len: int64(len(KA)) * int64(len(K)),
			Describe: func(i int64) any {
				a, b := KA[i/int64(len(K))], K[i%int64(len(K))]
				return map[string]any{"first_decoded": a.Describe(), "then_decoded": b.Describe()}
			},
			Run: func(i int64, w *enum.Worker) {
				x.w = w
				a, b := KA[i/int64(len(K))], K[i%int64(len(K))]
				fa, _ := firstOf(a)
				fb, _ := firstOf(b)
				if fa != fb {
					return
				}
				w.Guard("harness", func() {
					for cont := 0; cont < 4; cont += 3 {
						p, objs := build(fb, full, cont, 0)
						// both settings of IgnorePanic (the array-container run lets panics through; a
						// panic of a decoder is C19's subject and ends this pair)
						p.IgnorePanic = cont == 3
						var d []gopacket.LayerType
						p.DecodeLayers(corpus.Exact(a.Data), &d)
						errB := p.DecodeLayers(corpus.Exact(b.Data), &d)
						truncB := p.Truncated
						pf, fresh := build(fb, full, cont, 0)
						pf.IgnorePanic = p.IgnorePanic
						var df []gopacket.LayerType
						errF := pf.DecodeLayers(corpus.Exact(b.Data), &df)
						w.Count("pairs", 1)
						cfg := "container=" + containerNames[cont]
						if fmt.Sprint(d) != fmt.Sprint(df) || errClass(errB) != errClass(errF) || truncB != pf.Truncated {
							w.ViolationCase("c05|stale|result-depends-on-previous-packet", fmt.Sprintf("after another packet: layers %v err %v truncated %v; into fresh objects: %v err %v truncated %v; %s", d, errB, truncB, df, errF, pf.Truncated, cfg),
								map[string]any{"first_decoded": a.Describe(), "then_decoded": b.Describe()})
							return
						}
						for _, t := range d {
							s1, s2 := observable(objs[t]), observable(fresh[t])
							if s1 != s2 {
								w.ViolationCase("c05|stale|layer-keeps-state-of-previous-packet|"+t.String()+"|"+diffField(s1, s2), fmt.Sprintf("layer %v decoded into re-used objects differs from fresh objects: %s; %s", t, firstDiff(s1, s2), cfg),
									map[string]any{"first_decoded": a.Describe(), "then_decoded": b.Describe()})
								return
							}
						}
					}
				})
			}},
	}
	// every DecodingLayer type of the library, not only the universe above: for every pair (A, B) of
	// per-type seeds of one layer type (A also cut to two thirds, and A == B: the same packet twice)
	// the same object decodes A then B and must then equal a fresh object that decoded B
	type dlc struct {
		name string
		mk   func() gopacket.DecodingLayer
	}
	dlByType := map[gopacket.LayerType][]dlc{}
	for _, g := range gen.LayerTypes {
		g := g
		func() {
			defer func() { recover() }()
			d, ok := g.New().(gopacket.DecodingLayer)
			if !ok {
				return
			}
			for _, t := range d.CanDecode().LayerTypes() {
				dlByType[t] = append(dlByType[t], dlc{g.Name, func() gopacket.DecodingLayer { return g.New().(gopacket.DecodingLayer) }})
			}
		}()
	}
	byFirst := map[string][]int{}
	for i, t := range sp.TSeeds {
		if t.First.LT != 0 && len(dlByType[t.First.LT]) > 0 {
			byFirst[t.First.Name] = append(byFirst[t.First.Name], i)
		}
	}
	phases = append(phases, enum.Phase{Name: "reuse-pairs-every-decoding-layer", Len: int64(len(sp.TSeeds)), ChunkHint: 4,
		Describe: func(i int64) any {
			return map[string]any{"then_decoded": dspace.Case{First: sp.TSeeds[i].First, Data: sp.TSeeds[i].Data, Seed: sp.TSeeds[i].Name}.Describe()}
		},
		Run: func(i int64, w *enum.Worker) {
			b := sp.TSeeds[i]
			for _, d := range dlByType[b.First.LT] {
				for _, ai := range byFirst[b.First.Name] {
					for cut := 0; cut < 2; cut++ {
						a := sp.TSeeds[ai].Data
						if cut == 1 {
							a = a[:len(a)*2/3]
						}
						d := d
						w.Guard("decodefrombytes-reused|"+d.name, func() {
							fresh, used := d.mk(), d.mk()
							errF := fresh.DecodeFromBytes(corpus.Exact(b.Data), gopacket.NilDecodeFeedback)
							used.DecodeFromBytes(corpus.Exact(a), gopacket.NilDecodeFeedback)
							errU := used.DecodeFromBytes(corpus.Exact(b.Data), gopacket.NilDecodeFeedback)
							w.Count("reuse_pairs", 1)
							ex := map[string]any{"layer": d.name, "first_decoded": hex.EncodeToString(a), "then_decoded": hex.EncodeToString(b.Data), "then_decoded_seed": b.Name}
							if errClass(errF) != errClass(errU) {
								w.ViolationCase("c05|stale|error-depends-on-previous-packet|"+d.name, fmt.Sprintf("%s: after another packet DecodeFromBytes returns %v, on a fresh object %v", d.name, errU, errF), ex)
								return
							}
							if errF != nil {
								return
							}
							if s1, s2 := observable(used), observable(fresh); s1 != s2 {
								fld := diffField(s1, s2)
								if strings.HasPrefix(fld, "\"") || strings.Contains(fld, "map[") {
									fld = "map-entries" // a map-valued field: not one class per key
								}
								w.ViolationCase("c05|stale|layer-keeps-state-of-previous-packet|"+d.name+"|"+fld, fmt.Sprintf("%s decoded into a re-used object differs from a fresh object: %s", d.name, firstDiff(s1, s2)), ex)
							}
						})
					}
				}
			}
		}})
	r.Coverage["rule"] = "equivalence: every input of the deviation<=1 neighbourhoods of the Ethernet/IPv4/IPv6 seeds (header region, and the length-field deviations beyond it to the end of the seed); reference = NewPacket(DSAD) observed through a wrapper builder (which decoder call failed, where SetTruncated was called); expected parser result = leading run of packet layers inside the set (hop-by-hop folded into IPv6) up to the first type outside the set or the first failing layer. Parsed with the full 12-member universe in 4 containers (map, sparse, array, custom slice) x filled by Put / by AddDecodingLayer, every 11-member subset, IgnoreUnsupported on/off, decoded pre-filled with junk; for unmodified seeds every one of the 4096 subsets and the two other first layers. Compared: error class, reported type list, Truncated, and (deep) every field of every reported preallocated object against the packet's layer. stale-state: every ordered pair (A,B), A an unmodified seed or a seed cut to two thirds of its length, B an unmodified seed with the same first layer, decoded into the same objects (map container with IgnorePanic off, array container with IgnorePanic on); B's result must equal B decoded into fresh objects, field by field. reuse-pairs-every-decoding-layer: for every DecodingLayer type of the library and every ordered pair (A,B) of per-type seeds of one layer type (A whole and cut to two thirds, A == B included), one object decodes A then B directly through DecodeFromBytes and must then equal, error and every field, a fresh object that decoded B. distinct_nontrivial = distinct (packet layer sequence, failing index) of the references."
	r.Coverage["stale_corpus"] = len(K)
	r.Assumptions = []string{"field comparison by reflection over exported and unexported fields (nil slice == empty slice, the checksum back-pointer ignored)", "the wrapper PacketBuilder attributes failures and SetTruncated calls to decoder calls by nesting"}
	enum.Main(r, phases)
	r.Finish()
}

func seedStart(sp *dspace.Spaces, si int) int64 {
	var s int64
	for i := 0; i < si; i++ {
		s += sp.Neigh.Count(len(sp.TSeeds[i].Data))
	}
	return s
}

// diffField extracts the name of the first field at which two deep signatures differ.
func diffField(a, b string) string {
	i := 0
	for i < len(a) && i < len(b) && a[i] == b[i] {
		i++
	}
	j := i
	if j >= len(a) {
		j = len(a) - 1
	}
	for j > 0 && a[j] != '=' {
		j--
	}
	k := j
	for k > 0 && a[k-1] != ' ' && a[k-1] != '{' && a[k-1] != ',' && a[k-1] != '&' {
		k--
	}
	if k < j {
		return a[k:j]
	}
	return "?"
}
