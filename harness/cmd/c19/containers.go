// C19 (and C05), the layer parser and its lookup containers as an abstract machine: stub decoding
// layers with small type numbers whose "next layer type" is simply the first input byte. For
// every subset S of the types {1..6}, every provided container (map, sparse, array) and a custom
// one (generic closure), built in each of three ways, every first type 1..7 and every input
// string of length <= 3 over the bytes 0..7, the parser - with IgnorePanic, so nothing is caught
// on the way - must report exactly what a 15-line reference interpreter reports: the decoded
// type list, and success / unsupported(type) / decode error. No panic.
package main

import (
	"errors"
	"fmt"

	"github.com/gopacket/gopacket"

	"verif/engine/enum"
)

const stubTypes = 6 // registered types are subsets of 1..stubTypes; stubTypes+1 is never registered

type stub struct {
	t    gopacket.LayerType
	next gopacket.LayerType
	pay  []byte
}

var errStubShort = errors.New("stub: no bytes")

func (s *stub) DecodeFromBytes(data []byte, df gopacket.DecodeFeedback) error {
	if len(data) == 0 {
		return errStubShort
	}
	s.next, s.pay = gopacket.LayerType(data[0]), data[1:]
	return nil
}
func (s *stub) CanDecode() gopacket.LayerClass    { return s.t }
func (s *stub) NextLayerType() gopacket.LayerType { return s.next }
func (s *stub) LayerPayload() []byte              { return s.pay }

type stubSlice []gopacket.DecodingLayer

func (c stubSlice) Put(d gopacket.DecodingLayer) gopacket.DecodingLayerContainer {
	return append(c, d)
}
func (c stubSlice) Decoder(t gopacket.LayerType) (gopacket.DecodingLayer, bool) {
	for _, d := range c {
		if d.CanDecode().Contains(t) {
			return d, true
		}
	}
	return nil, false
}
func (c stubSlice) LayersDecoder(first gopacket.LayerType, df gopacket.DecodeFeedback) gopacket.DecodingLayerFunc {
	return gopacket.LayersDecoder(c, first, df)
}

var stubContainerNames = []string{"map", "sparse", "array", "custom"}

func stubContainer(k int) gopacket.DecodingLayerContainer {
	switch k {
	case 0:
		return gopacket.DecodingLayerMap(map[gopacket.LayerType]gopacket.DecodingLayer{})
	case 1:
		return gopacket.DecodingLayerSparse(nil)
	case 2:
		return gopacket.DecodingLayerArray(nil)
	}
	return stubSlice(nil)
}

var stubBuildNames = []string{"Put", "AddDecodingLayer", "constructor"}

// buildStubParser registers the types of mask (bit i = type i+1), in descending or ascending order
func buildStubParser(first gopacket.LayerType, mask, cont, how int, descending bool) *gopacket.DecodingLayerParser {
	var ls []gopacket.DecodingLayer
	for i := 0; i < stubTypes; i++ {
		j := i
		if descending {
			j = stubTypes - 1 - i
		}
		if mask&(1<<j) != 0 {
			ls = append(ls, &stub{t: gopacket.LayerType(j + 1)})
		}
	}
	switch how {
	case 2:
		return gopacket.NewDecodingLayerParser(first, ls...)
	case 1:
		p := gopacket.NewDecodingLayerParser(first)
		p.SetDecodingLayerContainer(stubContainer(cont))
		for _, l := range ls {
			p.AddDecodingLayer(l)
		}
		return p
	}
	c := stubContainer(cont)
	for _, l := range ls {
		c = c.Put(l)
	}
	p := gopacket.NewDecodingLayerParser(first)
	p.SetDecodingLayerContainer(c)
	return p
}

// reference interpreter
func stubReference(first gopacket.LayerType, mask int, in []byte) (decoded []gopacket.LayerType, outcome string) {
	has := func(t gopacket.LayerType) bool { return t >= 1 && int(t) <= stubTypes && mask&(1<<(int(t)-1)) != 0 }
	if !has(first) {
		return nil, fmt.Sprintf("unsupported(%d)", first)
	}
	typ, data := first, in
	for {
		if len(data) == 0 {
			return decoded, "decode-error"
		}
		decoded = append(decoded, typ)
		typ, data = gopacket.LayerType(data[0]), data[1:]
		if len(data) == 0 {
			return decoded, "ok"
		}
		if !has(typ) {
			if typ == gopacket.LayerTypeZero {
				return decoded, "ok" // the parser reads "no next layer" as the end of the packet
			}
			return decoded, fmt.Sprintf("unsupported(%d)", typ)
		}
	}
}

func stubInputs() [][]byte {
	out := [][]byte{{}}
	var rec func(p []byte)
	rec = func(p []byte) {
		if len(p) == 3 {
			return
		}
		for b := 0; b <= stubTypes+1; b++ {
			q := append(append([]byte(nil), p...), byte(b))
			out = append(out, q)
			rec(q)
		}
	}
	rec(nil)
	return out
}

func containerPhase() enum.Phase {
	inputs := stubInputs()
	nmask := 1 << stubTypes
	total := int64(nmask * 4 * 3)
	describe := func(i int64) (mask, cont, how int) {
		return int(i) % nmask, int(i) / nmask % 4, int(i) / nmask / 4
	}
	return enum.Phase{Name: "parser-containers", Len: total, ChunkHint: 16,
		Describe: func(i int64) any {
			m, c, h := describe(i)
			return map[string]any{"registered_types_mask": m, "container": stubContainerNames[c], "built_by": stubBuildNames[h]}
		},
		Run: func(i int64, w *enum.Worker) {
			mask, cont, how := describe(i)
			if how == 2 && cont != 0 {
				return // the constructor picks its own container
			}
			for first := 1; first <= stubTypes+1; first++ {
				for _, desc := range []bool{false, true} {
					for _, ignoreUnsup := range []bool{false, true} {
						p := buildStubParser(gopacket.LayerType(first), mask, cont, how, desc)
						p.IgnorePanic = true
						p.IgnoreUnsupported = ignoreUnsup
						decoded := []gopacket.LayerType{99, 98} // junk the parser must not leave behind
						for _, in := range inputs {
							var err error
							cfg := func() string {
								return fmt.Sprintf("registered types mask %06b, container %s built by %s (descending=%v), first=%d, IgnoreUnsupported=%v, input %v", mask, stubContainerNames[cont], stubBuildNames[how], desc, first, ignoreUnsup, in)
							}
							if w.Guard("DecodeLayers("+stubContainerNames[cont]+" container) with IgnorePanic", func() { err = p.DecodeLayers(in, &decoded) }) {
								return
							}
							w.Count("stub_parses", 1)
							want, outcome := stubReference(gopacket.LayerType(first), mask, in)
							got := "ok"
							var ut gopacket.UnsupportedLayerType
							switch {
							case err == nil:
							case errors.As(err, &ut):
								got = fmt.Sprintf("unsupported(%d)", gopacket.LayerType(ut))
							case errors.Is(err, errStubShort):
								got = "decode-error"
							default:
								got = "other error: " + err.Error()
							}
							if ignoreUnsup && len(outcome) > 11 && outcome[:11] == "unsupported" {
								outcome = "ok"
							}
							if got != outcome {
								w.Violation("c19|parser-containers|outcome-differs|"+stubContainerNames[cont], fmt.Sprintf("parser reports %s, reference %s; %s", got, outcome, cfg()))
								return
							}
							if fmt.Sprint(decoded) != fmt.Sprint(want) && !(len(decoded) == 0 && len(want) == 0) {
								w.Violation("c19|parser-containers|decoded-list-differs|"+stubContainerNames[cont], fmt.Sprintf("decoded %v, reference %v; %s", decoded, want, cfg()))
								return
							}
							w.OutcomeString(fmt.Sprintf("stub/%s/%d", outcome, len(want)))
						}
					}
				}
			}
		}}
}
