// C19: decoders return errors, not panics, with panic recovery switched off.
package main

import (
	"fmt"

	"github.com/gopacket/gopacket"

	"verif/engine/dspace"
	"verif/engine/enum"
	"verif/engine/report"
	"verif/gen"
)

type dlCtor struct {
	name string
	mk   func() gopacket.DecodingLayer
}

var dls []dlCtor
var dlByType = map[gopacket.LayerType][]int{}

func initDLs() {
	for _, c := range gen.LayerTypes {
		c := c
		if _, ok := c.New().(gopacket.DecodingLayer); !ok {
			continue
		}
		dls = append(dls, dlCtor{c.Name, func() gopacket.DecodingLayer { return c.New().(gopacket.DecodingLayer) }})
	}
	for i, d := range dls {
		func() {
			defer func() { recover() }()
			for _, t := range d.mk().CanDecode().LayerTypes() {
				dlByType[t] = append(dlByType[t], i)
			}
		}()
	}
}

var optSets = []gopacket.DecodeOptions{
	{SkipDecodeRecovery: true},
	{SkipDecodeRecovery: true, DecodeStreamsAsDatagrams: true},
	{SkipDecodeRecovery: true, Lazy: true},
	{SkipDecodeRecovery: true, Lazy: true, DecodeStreamsAsDatagrams: true},
}

func runPacket(c dspace.Case, w *enum.Worker) {
	for oi, o := range optSets {
		o := o
		w.Guard(fmt.Sprintf("newpacket"), func() {
			p := gopacket.NewPacket(c.Data, c.First.Dec, o)
			ls := p.Layers()
			if oi == 1 {
				sig := c.First.Name
				for _, l := range ls {
					sig += "/" + l.LayerType().String()
				}
				w.OutcomeString(sig)
			}
		})
	}
}

// runDirect calls DecodeFromBytes on a fresh zero value of every DecodingLayer
// type that can decode the case's first layer type, and again on a value that
// has just decoded the unmodified seed (re-use path).
func runDirect(c dspace.Case, seed []byte, w *enum.Worker) {
	if c.First.LT == 0 {
		return
	}
	for _, i := range dlByType[c.First.LT] {
		d := dls[i]
		w.Guard("decodefrombytes|"+d.name, func() {
			l := d.mk()
			err := l.DecodeFromBytes(c.Data, gopacket.NilDecodeFeedback)
			if err == nil {
				l.NextLayerType()
				l.LayerPayload()
			}
		})
		if seed != nil {
			w.Guard("decodefrombytes-reused|"+d.name, func() {
				l := d.mk()
				l.DecodeFromBytes(seed, gopacket.NilDecodeFeedback)
				if err := l.DecodeFromBytes(c.Data, gopacket.NilDecodeFeedback); err == nil {
					l.NextLayerType()
					l.LayerPayload()
				}
			})
		}
	}
}

// runAllDirect: every DecodingLayer type on the input regardless of type.
func runAllDirect(data []byte, w *enum.Worker) {
	for _, d := range dls {
		w.Guard("decodefrombytes|"+d.name, func() {
			l := d.mk()
			if err := l.DecodeFromBytes(data, gopacket.NilDecodeFeedback); err == nil {
				l.NextLayerType()
				l.LayerPayload()
			}
		})
	}
}

func runParser(c dspace.Case, w *enum.Worker) {
	if c.First.LT == 0 {
		return
	}
	w.Guard("parser", func() {
		var ds []gopacket.DecodingLayer
		for _, d := range dls {
			ds = append(ds, d.mk())
		}
		p := gopacket.NewDecodingLayerParser(c.First.LT, ds...)
		p.IgnorePanic = true
		var decoded []gopacket.LayerType
		p.DecodeLayers(c.Data, &decoded)
	})
}

func main() {
	r := report.New("C19", "exploration")
	initDLs()
	sp := dspace.Build(r.Thorough())
	phases := []enum.Phase{
		{Name: "seedless-newpacket", Len: sp.SeedlessLen(),
			Run:      func(i int64, w *enum.Worker) { runPacket(sp.SeedlessCase(i), w) },
			Describe: func(i int64) any { return sp.SeedlessCase(i).Describe() }},
		{Name: "seedless-direct", Len: int64(len(sp.Seedless)),
			Run: func(i int64, w *enum.Worker) { runAllDirect(sp.Seedless[i], w) },
			Describe: func(i int64) any {
				return dspace.Case{Data: sp.Seedless[i], Seed: "seedless, every DecodingLayer type"}.Describe()
			}},
		{Name: "neigh", Len: sp.NeighLen(),
			Run: func(i int64, w *enum.Worker) {
				c := sp.NeighCase(i)
				runPacket(c, w)
				var seed []byte
				if c.Dev > 0 {
					seed = sp.TSeeds[c.SeedIdx].Data
				}
				runDirect(c, seed, w)
				runParser(c, w)
			},
			Describe: func(i int64) any { return sp.NeighCase(i).Describe() }},
		{Name: "deep", Len: sp.DeepLen(),
			Run: func(i int64, w *enum.Worker) {
				c := sp.DeepCase(i)
				runPacket(c, w)
				runDirect(c, sp.TSeeds[c.SeedIdx].Data, w)
				runParser(c, w)
			},
			Describe: func(i int64) any { return sp.DeepCase(i).Describe() }},
		{Name: "cross", Len: sp.CrossLen(),
			Run:      func(i int64, w *enum.Worker) { c := sp.CrossCase(i); runPacket(c, w); runDirect(c, nil, w) },
			Describe: func(i int64) any { return sp.CrossCase(i).Describe() }},
	}
	phases = append(phases, containerPhase())
	r.Coverage["rule"] = "cases = (first layer, input) from: all byte strings of length <=2 and constant fills x every registered first layer; deviation<=1 neighbourhoods (every prefix, byte substitutions, 16/32-bit window overwrites, extensions) of per-layer-type seeds derived from the repository fixtures, in the first 96 [256] bytes, and beyond that, to the end of the seed (at most 1600 [65536] bytes), every 16-bit window overwritten with 7 length-like values in both byte orders and every byte with 5 values; every seed x every first layer. Each case is run through NewPacket(SkipDecodeRecovery) eager/lazy x DSAD on/off, DecodeFromBytes on fresh and re-used values of every DecodingLayer type for that layer type, and a DecodingLayerParser{IgnorePanic} over all DecodingLayer types. parser-containers: stub decoding layers with type numbers 1..6 whose next type is the first input byte: every subset of registered types x map/sparse/array/custom container x built by Put / AddDecodingLayer / constructor x ascending/descending registration x first type 1..7 x IgnoreUnsupported x every input of length <=3 over bytes 0..7, through DecodeLayers with IgnorePanic; decoded list and outcome compared with a reference interpreter. distinct_nontrivial = distinct (first layer, decoded layer-type sequence) outcomes."
	r.Coverage["decoding_layer_types"] = len(dls)
	r.Coverage["first_layers"] = len(sp.Firsts)
	r.Coverage["per_type_seeds"] = len(sp.TSeeds)
	r.Assumptions = []string{"Go runtime panics/fatal errors are the only crash channel", "inputs outside the enumerated neighbourhoods are not covered (DESIGN.md section 9)", "hang = one case consumes 120 s of CPU time in its worker (orders of magnitude above the normal ~15 us), or 30 min of wall-clock time without using CPU"}
	enum.Main(r, phases)
	r.Finish()
}
