// C04 part a: copy isolates the packet from the caller's buffer; NoCopy and Pool
// only change where the bytes live.
package main

import (
	"fmt"
	"regexp"
	"strings"

	"github.com/gopacket/gopacket"
	"github.com/gopacket/gopacket/zzverif/vsync"

	"verif/engine/corpus"
	"verif/engine/dspace"
	"verif/engine/enum"
	"verif/engine/report"
	"verif/engine/sig"
)

// the text of a recovered out-of-range panic mentions the capacity of the slice, which
// legitimately differs between an exact copy and a pool block: compare its class only
var rangeRe = regexp.MustCompile(`runtime error: (index|slice bounds) out of range[^\n]*`)

func safeSig(p gopacket.Packet) (s string) {
	defer func() {
		if r := recover(); r != nil {
			s = fmt.Sprint("PANIC:", r)
		}
	}()
	return rangeRe.ReplaceAllString(sig.Packet(p), "runtime error: out of range")
}

func decode(data []byte, f corpus.First, o gopacket.DecodeOptions) (p gopacket.Packet, perr any) {
	defer func() { perr = recover() }()
	return gopacket.NewPacket(data, f.Dec, o), nil
}

const blockSize = 1500

func equivalence(c dspace.Case, w *enum.Worker) {
	for bk := 0; bk < 4; bk++ {
		// the reference is the copying, unpooled decode with the same Lazy/DSAD setting
		// (lazy against eager is C03's subject)
		base := gopacket.DecodeOptions{DecodeStreamsAsDatagrams: bk&1 != 0, Lazy: bk&2 != 0}
		p0, e0 := decode(corpus.Exact(c.Data), c.First, base)
		if e0 != nil {
			continue // C01's business
		}
		s0 := safeSig(p0)
		for k := 1; k < 5; k++ {
			o := base
			o.NoCopy, o.Pool = k&1 != 0, k&2 != 0
			in := corpus.Exact(c.Data)
			if k == 4 {
				// NoCopy the way it is used with a read buffer: the packet is the front of a larger
				// array whose rest holds other bytes
				o.NoCopy = true
				big := make([]byte, len(c.Data)+96)
				for i := range big {
					big[i] = 0xEE
				}
				in = big[:copy(big, c.Data)]
			}
			p, e := decode(in, c.First, o)
			if e != nil {
				w.Violation("c04|panic-with-options|"+c.First.Name, fmt.Sprintf("NewPacket panicked with %+v: %v", o, e))
				continue
			}
			_, pooled := p.(gopacket.PooledPacket)
			wantPooled := o.Pool && !o.NoCopy && len(c.Data) <= blockSize
			if pooled != wantPooled {
				w.Violation("c04|pooled-packet-iff-copying-and-fits", fmt.Sprintf("options %+v len %d: PooledPacket=%v want %v", o, len(c.Data), pooled, wantPooled))
			}
			if s := safeSig(p); s != s0 {
				name := "nocopy"
				if o.Pool && !o.NoCopy {
					name = "pool"
				}
				if k == 4 {
					name = "nocopy-of-a-larger-buffer"
				}
				w.Violation("c04|result-differs-from-default|"+name+"|"+divergence(p, p0, c.First.Name), fmt.Sprintf("options %+v: packet differs from the default decode:\n%.600s\nvs default\n%.600s", o, s, s0))
			}
			if pp, ok := p.(gopacket.PooledPacket); ok {
				pp.Dispose()
			}
		}
		if bk == 1 {
			w.OutcomeString(c.First.Name + sig.TypeSeq(p0))
		}
	}
}

// divergence names the first layer at which two packets differ: "<type in p>/<type in ref>".
func divergence(p, ref gopacket.Packet, first string) (d string) {
	defer func() {
		if r := recover(); r != nil {
			d = "panic"
		}
	}()
	a, b := p.Layers(), ref.Layers()
	for i := 0; i < len(a) || i < len(b); i++ {
		if i >= len(a) {
			return "<none>/" + b[i].LayerType().String()
		}
		if i >= len(b) {
			return a[i].LayerType().String() + "/<none>"
		}
		if rangeRe.ReplaceAllString(sig.Layer(a[i]), "x") != rangeRe.ReplaceAllString(sig.Layer(b[i]), "x") {
			d := a[i].LayerType().String() + "/" + b[i].LayerType().String()
			if a[i].LayerType() == gopacket.LayerTypeDecodeFailure && b[i].LayerType() == gopacket.LayerTypeDecodeFailure {
				// both fail, differently: name the decoder by the layer in front, or the case's first layer
				// both fail, differently: name the decoder that failed - the case's first layer, or
				// the one the layer in front hands over to
				if nl, ok := a[max(i-1, 0)].(interface{ NextLayerType() gopacket.LayerType }); i > 0 && ok {
					d += " in " + nl.NextLayerType().String()
				} else if i > 0 {
					d += " after " + a[i-1].LayerType().String()
				} else {
					d += " in " + strings.TrimPrefix(first, "LayerType:")
				}
			}
			return d
		}
	}
	return "metadata"
}

func isolation(c dspace.Case, w *enum.Worker) {
	for k := 0; k < 4; k++ {
		o := gopacket.DecodeOptions{Lazy: k&1 != 0, Pool: k&2 != 0}
		ref, e := decode(corpus.Exact(c.Data), c.First, o)
		if e != nil {
			return
		}
		sref := safeSig(ref)
		if pp, ok := ref.(gopacket.PooledPacket); ok {
			pp.Dispose()
		}
		buf := corpus.Exact(c.Data)
		p, e := decode(buf, c.First, o)
		if e != nil {
			continue
		}
		// the caller re-uses its buffer
		for i := range buf {
			buf[i] = ^buf[i]
		}
		if s := safeSig(p); s != sref {
			w.Violation(fmt.Sprintf("c04|packet-changes-with-callers-buffer|lazy=%v|pool=%v", o.Lazy, o.Pool), fmt.Sprintf("after overwriting the caller's buffer the packet reads\n%.500s\ninstead of\n%.500s", s, sref))
		}
		if pp, ok := p.(gopacket.PooledPacket); ok {
			pp.Dispose()
		}
	}
}

var sizes = []int{0, 1, 1499, 1500, 1501, 3000, 65535}

func main() {
	r := report.New("C04", "model_checking")
	sp := dspace.Build(r.Thorough())
	// recycled pool blocks are poisoned, so a decoder that reads beyond len(data) sees a
	// deterministic pattern instead of whatever the previous packet left behind
	vsync.OnPoolGet = func(x any, fresh bool) {
		if b, ok := x.(*[]byte); ok {
			bb := (*b)[:cap(*b)]
			for i := range bb {
				bb[i] = 0xEE
			}
		}
	}
	sized := func(i int64) dspace.Case {
		t := sp.Natural[i/int64(len(sizes))]
		n := sizes[i%int64(len(sizes))]
		d := make([]byte, n)
		for j := range d {
			if j < len(t.Data) {
				d[j] = t.Data[j]
			} else {
				d[j] = byte(j*7 + 1)
			}
		}
		return dspace.Case{First: t.First, Data: d, Seed: fmt.Sprintf("%s resized to %d", t.Name, n), SeedIdx: -1}
	}
	phases := []enum.Phase{
		{Name: "option-equivalence", Len: sp.NeighDeepLen(),
			Run:      func(i int64, w *enum.Worker) { equivalence(sp.NeighDeepCase(i), w) },
			Describe: func(i int64) any { return sp.NeighDeepCase(i).Describe() }},
		{Name: "sizes-around-the-pool-block", Len: int64(len(sp.Natural) * len(sizes)),
			Run: func(i int64, w *enum.Worker) {
				c := sized(i)
				equivalence(c, w)
				isolation(c, w)
			},
			Describe: func(i int64) any { return sized(i).Describe() }},
		{Name: "copy-isolation", Len: int64(len(sp.TSeeds)),
			Run: func(i int64, w *enum.Worker) {
				t := sp.TSeeds[i]
				isolation(dspace.Case{First: t.First, Data: t.Data, Seed: t.Name}, w)
			},
			Describe: func(i int64) any {
				t := sp.TSeeds[i]
				return dspace.Case{First: t.First, Data: t.Data, Seed: t.Name}.Describe()
			}},
	}
	r.Coverage["rule"] = "option-equivalence: every (first layer, input) of the deviation<=1 (header region, and length-field deviations beyond it to the end of the seed) neighbourhoods x DSAD: packets decoded with every combination of {Lazy, NoCopy, Pool} must have the same signature as the default decode, PooledPacket iff Pool && !NoCopy && len<=1500. sizes: every natural seed resized to 0,1,1499,1500,1501,3000,65535 bytes. copy-isolation: decode with default/Lazy/Pool options, complement every byte of the caller's buffer, the packet (lazy: decoded only afterwards) must equal a packet decoded from a pristine copy. The packet block pool is the vsync shim pool with poisoned recycled blocks. distinct_nontrivial = distinct (first layer, layer-type sequence) outcomes."
	enum.Main(r, phases)
	r.Assumptions = []string{"every NoCopy decode gets its own exact-capacity copy of the input (input integrity is C02)", "packet signatures (sig.Packet) observe layers, contents, payloads, rendered fields, special layers, error, truncation"}
	r.Finish()
}
