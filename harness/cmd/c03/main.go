// C03: lazy decoding is observationally equivalent to eager decoding.
package main

import (
	"fmt"
	"strings"

	"github.com/gopacket/gopacket"
	"github.com/gopacket/gopacket/layers"

	"verif/engine/corpus"
	"verif/engine/dspace"
	"verif/engine/enum"
	"verif/engine/report"
	"verif/engine/sig"
)

// ---- accessor alphabet ---------------------------------------------------------

type letter struct {
	kind int // 0 Layer(t) 1 LayerClass(c) 2 Link 3 Network 4 Transport 5 Application 6 Error 7 Layers 8 String 9 Dump
	t    gopacket.LayerType
	c    int
}

var classes = []gopacket.LayerClass{layers.LayerClassIPNetwork, layers.LayerClassIPTransport, layers.LayerClassIPControl}
var classNames = []string{"IPNetwork", "IPTransport", "IPControl"}

func (l letter) String() string {
	switch l.kind {
	case 0:
		return "Layer(" + l.t.String() + ")"
	case 1:
		return "LayerClass(" + classNames[l.c] + ")"
	}
	return [...]string{"", "", "LinkLayer", "NetworkLayer", "TransportLayer", "ApplicationLayer", "ErrorLayer", "Layers", "String", "Dump"}[l.kind]
}

const absentType = gopacket.LayerType(1999)

func alphabetFor(eager gopacket.Packet) []letter {
	var a []letter
	seen := map[gopacket.LayerType]bool{}
	for _, l := range eager.Layers() {
		if !seen[l.LayerType()] {
			seen[l.LayerType()] = true
			a = append(a, letter{kind: 0, t: l.LayerType()})
		}
	}
	a = append(a, letter{kind: 0, t: absentType})
	for c := range classes {
		a = append(a, letter{kind: 1, c: c})
	}
	for k := 2; k <= 9; k++ {
		a = append(a, letter{kind: k})
	}
	return a
}

func layerSig(p gopacket.Packet, l gopacket.Layer) string {
	if l == nil || isNilLayer(l) {
		return "<nil>"
	}
	return sig.Layer(l)
}

func isNilLayer(l any) bool {
	return fmt.Sprintf("%v", l) == "<nil>" && fmt.Sprintf("%T", l) != "" && fmt.Sprintf("%p", l) == "0x0"
}

// answer renders what an accessor call returns.
func answer(p gopacket.Packet, l letter, dumpOK bool) (s string) {
	defer func() {
		if r := recover(); r != nil {
			s = "PANIC"
		}
	}()
	switch l.kind {
	case 0:
		return layerSig(p, p.Layer(l.t))
	case 1:
		return layerSig(p, p.LayerClass(classes[l.c]))
	case 2:
		if x := p.LinkLayer(); x != nil {
			return layerSig(p, x)
		}
		return "<nil>"
	case 3:
		if x := p.NetworkLayer(); x != nil {
			return layerSig(p, x)
		}
		return "<nil>"
	case 4:
		if x := p.TransportLayer(); x != nil {
			return layerSig(p, x)
		}
		return "<nil>"
	case 5:
		if x := p.ApplicationLayer(); x != nil {
			return layerSig(p, x)
		}
		return "<nil>"
	case 6:
		if x := p.ErrorLayer(); x != nil {
			return layerSig(p, x)
		}
		return "<nil>"
	case 7:
		var b strings.Builder
		for _, x := range p.Layers() {
			b.WriteString(layerSig(p, x))
			b.WriteByte('\n')
		}
		fmt.Fprintf(&b, "truncated=%v", p.Metadata().Truncated)
		return b.String()
	case 8:
		return p.String() + fmt.Sprintf("truncated=%v", p.Metadata().Truncated)
	case 9:
		if !dumpOK {
			p.Dump()
			return "dump-not-compared"
		}
		return p.Dump()
	}
	return ""
}

func lazyKey(p gopacket.Packet) string {
	_, n, next, a, b, c, d, e, t := gopacket.VerifLazyState(p)
	return fmt.Sprint(n, next, a, b, c, d, e, t)
}

var optSets = []gopacket.DecodeOptions{{}, {DecodeStreamsAsDatagrams: true}, {NoCopy: true}, {NoCopy: true, DecodeStreamsAsDatagrams: true}}

func mk(c dspace.Case, o gopacket.DecodeOptions, lazy bool) gopacket.Packet {
	o.Lazy = lazy
	in := c.Data
	if o.NoCopy {
		in = corpus.Exact(c.Data) // NoCopy harness rule: every packet gets its own copy
	}
	return gopacket.NewPacket(in, c.First.Dec, o)
}

type ctx struct {
	w        *enum.Worker
	shapes   map[string]int
	states   int64
	trans    int64
	programs int64
}

// shape: step-by-step trajectory of the lazy decode (layers added and flags after each step)
func shapeOf(c dspace.Case, o gopacket.DecodeOptions) string {
	p := mk(c, o, true)
	var b strings.Builder
	b.WriteString(c.First.Name)
	for i := 0; i < 64; i++ {
		b.WriteString("|" + lazyKey(p))
		if !gopacket.VerifLazyStep(p) {
			break
		}
	}
	for _, l := range p.Layers() {
		b.WriteString("/" + l.LayerType().String())
	}
	return b.String()
}

func (x *ctx) fail(c dspace.Case, o gopacket.DecodeOptions, prog []letter, clause, detail string) {
	var ps []string
	for _, l := range prog {
		ps = append(ps, l.String())
	}
	x.w.ViolationCase("c03|"+clause+"|"+c.First.Name, fmt.Sprintf("%s; options %+v; program %v", detail, o, ps),
		map[string]any{"case": c.Describe(), "options": fmt.Sprintf("%+v", o), "program": ps})
}

// runProgram applies a program to a fresh lazy packet and compares every answer with the eager packet's.
func (x *ctx) runProgram(c dspace.Case, o gopacket.DecodeOptions, eager gopacket.Packet, ea map[string]string, alpha []letter, prog []int, dumpOK bool) (gopacket.Packet, bool) {
	p := mk(c, o, true)
	for i, li := range prog {
		l := alpha[li]
		got := answer(p, l, dumpOK)
		want, ok := ea[l.String()]
		if !ok {
			want = answer(eager, l, dumpOK)
			ea[l.String()] = want
		}
		if l.kind == 8 || l.kind == 7 || l.kind == 9 {
			// String/Layers/Dump force full decoding; the truncation flag is compared as part of the answer
		}
		if got != want {
			var pl []letter
			for _, j := range prog[:i+1] {
				pl = append(pl, alpha[j])
			}
			x.fail(c, o, pl, "answer-differs|"+l.kindName(), fmt.Sprintf("lazy answered %q, eager %q", trunc(got), trunc(want)))
			return p, false
		}
	}
	return p, true
}

func (l letter) kindName() string {
	return [...]string{"Layer", "LayerClass", "LinkLayer", "NetworkLayer", "TransportLayer", "ApplicationLayer", "ErrorLayer", "Layers", "String", "Dump"}[l.kind]
}

func trunc(s string) string {
	if len(s) > 300 {
		return s[:300] + "..."
	}
	return s
}

func (x *ctx) explore(c dspace.Case, o gopacket.DecodeOptions, unprunedDepth int) {
	eager := mk(c, o, false)
	alpha := alphabetFor(eager)
	ea := map[string]string{}
	dumpOK := eager.ErrorLayer() == nil // a recovered panic's stack text differs between the two packets
	// pruned BFS over lazy states x letters
	seen := map[string]bool{}
	p0 := mk(c, o, true)
	seen[lazyKey(p0)] = true
	frontier := [][]int{{}}
	x.states++
	for len(frontier) > 0 {
		var next [][]int
		for _, path := range frontier {
			for li := range alpha {
				prog := append(append([]int(nil), path...), li)
				x.trans++
				p, ok := x.runProgram(c, o, eager, ea, alpha, prog, dumpOK)
				if !ok {
					return
				}
				k := lazyKey(p)
				if !seen[k] {
					seen[k] = true
					x.states++
					next = append(next, prog)
				}
			}
		}
		frontier = next
	}
	// unpruned: every program of the given length
	if unprunedDepth > 0 {
		prog := make([]int, unprunedDepth)
		for {
			x.programs++
			x.trans += int64(unprunedDepth)
			if _, ok := x.runProgram(c, o, eager, ea, alpha, prog, dumpOK); !ok {
				return
			}
			i := unprunedDepth - 1
			for ; i >= 0; i-- {
				prog[i]++
				if prog[i] < len(alpha) {
					break
				}
				prog[i] = 0
			}
			if i < 0 {
				break
			}
		}
	}
}

func main() {
	r := report.New("C03", "model_checking")
	sp := dspace.Build(r.Thorough())
	unpruned := 3
	if r.Thorough() {
		unpruned = 4
	}
	x := &ctx{shapes: map[string]int{}}
	lastChunk := int64(-1)
	phases := []enum.Phase{
		{Name: "neigh", Len: sp.NeighDeepLen(),
			Run: func(i int64, w *enum.Worker) {
				x.w = w
				if lastChunk < 0 || i < lastChunk {
					x.shapes = map[string]int{}
				}
				lastChunk = i
				c := sp.NeighDeepCase(i)
				if len(c.Data) == 0 {
					return // the statement speaks about non-empty inputs
				}
				for _, o := range optSets {
					o := o
					w.Guard("harness", func() {
						// every input: full-decode equivalence
						eager := mk(c, o, false)
						lazy := mk(c, o, true)
						se, sl := sig.Packet(eager), sig.Packet(lazy)
						if se != sl {
							x.fail(c, o, nil, "full-decode-differs", "lazy packet after Layers() differs from the eager packet:\n"+trunc(sl)+"\nvs\n"+trunc(se))
							return
						}
						if lazy.String() != eager.String() {
							x.fail(c, o, nil, "string-differs", "String() differs after full decoding")
							return
						}
						w.OutcomeString(sig.TypeSeq(eager))
						// one representative per decode shape: state-space exploration of accessor programs
						// (not for packets of hundreds of layers - an input extended by thousands of
						// filler bytes: the BFS replays its path for every transition and renders the
						// whole packet for the String/Dump letters, a cubic cost of minutes per case that
						// only trips the no-progress watchdog; their full-decode equivalence was judged above)
						if len(eager.Layers()) > 64 {
							w.Count("bfs_skipped_over_64_layers", 1)
							return
						}
						sh := shapeOf(c, o) + fmt.Sprint(o.DecodeStreamsAsDatagrams)
						if x.shapes[sh] >= 1 {
							return
						}
						x.shapes[sh]++
						s0, t0 := x.states, x.trans
						x.explore(c, o, 0)
						w.Count("bfs_inputs", 1)
						w.Count("states", x.states-s0)
						w.Count("transitions", x.trans-t0)
					})
				}
			},
			Describe: func(i int64) any { return sp.NeighDeepCase(i).Describe() }},
		{Name: "unpruned-programs", Len: int64(len(sp.TSeeds)), ChunkHint: 4,
			Run: func(i int64, w *enum.Worker) {
				x.w = w
				t := sp.TSeeds[i]
				c := dspace.Case{First: t.First, Data: t.Data, Seed: t.Name, SeedIdx: int(i)}
				for _, o := range optSets[:2] {
					o := o
					w.Guard("harness", func() {
						s0, t0, p0 := x.states, x.trans, x.programs
						x.explore(c, o, unpruned)
						w.Count("states", x.states-s0)
						w.Count("transitions", x.trans-t0)
						w.Count("programs", x.programs-p0)
					})
				}
			},
			Describe: func(i int64) any {
				t := sp.TSeeds[i]
				return dspace.Case{First: t.First, Data: t.Data, Seed: t.Name}.Describe()
			}},
	}
	enum.Main(r, phases)
	cs, _ := r.Coverage["counters"].(map[string]int64)
	st := cs["neigh.states"] + cs["unpruned-programs.states"]
	tr := cs["neigh.transitions"] + cs["unpruned-programs.transitions"]
	r.Coverage["states"] = st
	r.Coverage["transitions"] = tr
	r.Coverage["traces_validated_against_impl"] = tr
	r.Coverage["unpruned_programs"] = cs["unpruned-programs.programs"]
	r.Coverage["inputs_explored_by_bfs"] = cs["neigh.bfs_inputs"]
	r.Coverage["rule"] = "every non-empty input of the deviation<=1 neighbourhoods (header region, and length-field deviations beyond it to the end of the seed) x {NoCopy} x {DSAD}: lazy packet after Layers() must equal the eager packet (layers, contents, payloads, rendered fields, special layers, error, truncation, String). For one representative per decode shape (step-by-step trajectory of the lazy decode) per chunk: explicit-state BFS over (lazy packet state) x (accessor alphabet), each transition = fresh lazy packet + replayed path, every answer compared with the eager packet's answer. For every unmodified seed: all accessor programs of length 3 [thorough 4] unpruned."
	r.Coverage["explanation"] = "state = (layers decoded so far, continuation present, link/network/transport/application/failure set, truncated) read by an injected accessor; transitions = accessor calls; states/transitions are summed over inputs."
	r.Assumptions = []string{"pruning argument: a lazy decode step reads only next/last/data, so equal state keys have equal futures on an implementation whose accessors do not cache; the unpruned enumeration guards the argument itself", "NoCopy: every packet gets its own copy of the input (input integrity is C02)", "Dump() compared only when there is no error layer (a recovered panic's stack text legitimately differs)"}
	r.Finish()
}
