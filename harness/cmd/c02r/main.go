// C02 part r: free-running happens-before pass (built with -race). Several goroutines read
// one eager packet at once, and several goroutines decode at once; any pair of conflicting
// accesses not ordered by happens-before is reported by the race detector. The workload runs
// in a child process whose race reports are collected from GORACE's log files.
package main

import (
	"bufio"
	"fmt"
	"os"
	"os/exec"
	"path/filepath"
	"regexp"
	"sort"
	"strings"
	"sync"

	"github.com/gopacket/gopacket"
	"github.com/gopacket/gopacket/layers"

	"verif/engine/corpus"
	"verif/engine/dspace"
	"verif/engine/report"
)

type setter interface {
	SetNetworkLayerForChecksum(gopacket.NetworkLayer) error
}

var classes = []gopacket.LayerClass{layers.LayerClassIPNetwork, layers.LayerClassIPTransport}

func suite(p gopacket.Packet) {
	defer func() { recover() }()
	for _, l := range p.Layers() {
		p.Layer(l.LayerType())
		gopacket.LayerGoString(l)
	}
	for _, c := range classes {
		p.LayerClass(c)
	}
	if l := p.LinkLayer(); l != nil {
		l.LinkFlow()
	}
	if l := p.NetworkLayer(); l != nil {
		l.NetworkFlow()
	}
	if l := p.TransportLayer(); l != nil {
		l.TransportFlow()
	}
	p.ErrorLayer()
	_ = p.String()
	_ = p.Dump()
	p.VerifyChecksums()
}

func child(cases []dspace.Case) {
	const readers = 3
	for _, c := range cases {
		for _, nocopy := range []bool{false, true} {
			func() {
				defer func() { recover() }()
				in := corpus.Exact(c.Data)
				p := gopacket.NewPacket(in, c.First.Dec, gopacket.DecodeOptions{DecodeStreamsAsDatagrams: true, NoCopy: nocopy})
				if nl := p.NetworkLayer(); nl != nil {
					for _, l := range p.Layers() {
						if s, ok := l.(setter); ok {
							s.SetNetworkLayerForChecksum(nl)
						}
					}
				}
				// readers of one eager packet
				var wg sync.WaitGroup
				start := make(chan struct{})
				for g := 0; g < readers; g++ {
					wg.Add(1)
					go func() {
						defer wg.Done()
						<-start
						suite(p)
					}()
				}
				close(start)
				wg.Wait()
				// concurrent decodes of the same caller buffer (copy mode) and of other inputs
				start2 := make(chan struct{})
				for g := 0; g < readers; g++ {
					wg.Add(1)
					go func(g int) {
						defer wg.Done()
						defer func() { recover() }()
						<-start2
						q := gopacket.NewPacket(in, c.First.Dec, gopacket.DecodeOptions{DecodeStreamsAsDatagrams: true, Lazy: g == 2})
						suite(q)
					}(g)
				}
				close(start2)
				wg.Wait()
			}()
		}
	}
}

var frameRe = regexp.MustCompile(`^  (\S+)\(`)

// parse GORACE log files into (key, text) pairs
func parse(dir string) map[string]string {
	out := map[string]string{}
	files, _ := filepath.Glob(filepath.Join(dir, "race.*"))
	for _, f := range files {
		fh, err := os.Open(f)
		if err != nil {
			continue
		}
		sc := bufio.NewScanner(fh)
		sc.Buffer(make([]byte, 1<<20), 1<<24)
		var block []string
		flush := func() {
			if len(block) == 0 {
				return
			}
			// the two access stacks are the first two paragraphs after the header
			var tops []string
			inStack, found := false, false
			for _, l := range block {
				if strings.HasPrefix(l, "Write at") || strings.HasPrefix(l, "Read at") || strings.HasPrefix(l, "Previous write at") || strings.HasPrefix(l, "Previous read at") {
					inStack, found = true, false
					continue
				}
				if strings.HasPrefix(l, "Goroutine ") {
					inStack = false
				}
				if inStack && !found {
					if m := frameRe.FindStringSubmatch(l); m != nil && strings.Contains(m[1], "github.com/gopacket/gopacket") {
						tops = append(tops, strings.TrimPrefix(m[1], "github.com/gopacket/gopacket/"))
						found = true
					}
				}
			}
			for len(tops) < 2 {
				tops = append(tops, "?")
			}
			sort.Strings(tops[:2])
			key := "race|" + tops[0] + "|" + tops[1]
			if _, ok := out[key]; !ok {
				out[key] = strings.Join(block[:min(len(block), 40)], "\n")
			}
			block = nil
		}
		for sc.Scan() {
			l := sc.Text()
			if strings.HasPrefix(l, "WARNING: DATA RACE") {
				flush()
				block = []string{l}
				continue
			}
			if len(block) > 0 {
				if strings.HasPrefix(l, "==================") && len(block) > 1 {
					flush()
					continue
				}
				block = append(block, l)
			}
		}
		flush()
		fh.Close()
	}
	return out
}

func main() {
	sp := dspace.Build(os.Getenv("VERIF_TIER") == "thorough")
	var K []dspace.Case
	for i, t := range sp.TSeeds {
		K = append(K, dspace.Case{First: t.First, Data: t.Data, Seed: t.Name, SeedIdx: i})
	}
	if os.Getenv("C02R_CHILD") != "" {
		child(K)
		return
	}
	r := report.New("C02", "exploration")
	if os.Getenv("VERIF_REPLAY") != "" {
		fmt.Println("replay: re-run the check; the race report text is in the replay file")
		os.Exit(0)
	}
	dir := filepath.Join(report.Root(), ".work", "race-"+fmt.Sprint(os.Getpid()))
	if w := os.Getenv("VERIF_WORK"); w != "" {
		dir = filepath.Join(w, "race-"+fmt.Sprint(os.Getpid()))
	}
	os.MkdirAll(dir, 0o755)
	defer os.RemoveAll(dir)
	exe, _ := os.Executable()
	cmd := exec.Command(exe)
	cmd.Env = append(os.Environ(), "C02R_CHILD=1", "GORACE=log_path="+filepath.Join(dir, "race")+" halt_on_error=0 history_size=2")
	cmd.Stdout, cmd.Stderr = os.Stdout, os.Stderr
	if err := cmd.Run(); err != nil {
		if ee, ok := err.(*exec.ExitError); !ok || ee.ExitCode() != 66 { // 66 = races were reported
			fmt.Println("race child failed:", err)
			os.Exit(2)
		}
	}
	races := parse(dir)
	for k, txt := range races {
		r.Violation("c02|"+k, "the race detector reports conflicting unsynchronised accesses:\n"+txt, 0, map[string]any{"part": "c02r", "report": txt})
	}
	r.Coverage["evaluations"] = int64(len(K) * 2 * 6)
	r.Coverage["distinct_nontrivial"] = len(K)
	r.Coverage["race_reports"] = len(races)
	r.Coverage["samples"] = []any{map[string]any{"body": "3 goroutines run the whole accessor suite on one eager packet (copy and NoCopy); then 3 goroutines decode the same buffer concurrently (one lazily) and read their own packets", "inputs": len(K)}}
	r.Coverage["rule"] = "for every per-type seed (copy and NoCopy): one eagerly decoded packet with its network layer attached is read by 3 goroutines released together, each running the full accessor suite (layers, flows, String, Dump, LayerGoString, VerifyChecksums); then 3 goroutines decode the same caller buffer concurrently. Built with -race and run free (no cooperative scheduler). The race detector's verdict depends on which accesses were executed, not on how they interleaved, so for these straight-line bodies one run per input is decisive for that input. distinct_nontrivial = inputs."
	r.Assumptions = []string{"Go race detector (happens-before, no false positives)", "supplement to part a: only unsynchronised conflicting accesses are looked for here"}
	r.Finish()
}
