// C08: written checksums are correct; verification accepts exactly the correct ones.
package main

import (
	"encoding/hex"
	"fmt"
	"net"
	"os"
	"runtime"
	"runtime/debug"
	"strings"
	"sync"
	"sync/atomic"

	"github.com/gopacket/gopacket"
	"github.com/gopacket/gopacket/layers"

	"verif/engine/report"
)

// ---- independent reference (RFC 1071) ---------------------------------------------

// refSum is the exact integer sum of the 16-bit big-endian words of d (odd trailing
// byte padded with zero), in 64 bits - no wrap for any input this check uses.
func refSum(d []byte) uint64 {
	var s uint64
	for i := 0; i+1 < len(d); i += 2 {
		s += uint64(d[i])<<8 | uint64(d[i+1])
	}
	if len(d)%2 == 1 {
		s += uint64(d[len(d)-1]) << 8
	}
	return s
}

// refFold: one's complement of the end-around-carry sum.
func refFold(s uint64) uint16 {
	if s == 0 {
		return 0xffff
	}
	r := s % 0xffff
	if r == 0 {
		r = 0xffff
	}
	return ^uint16(r)
}

func refChecksum(parts ...[]byte) uint16 {
	var s uint64
	for _, p := range parts {
		s += refSum(p) // every part except the last has even length in our uses
	}
	return refFold(s)
}

// ---- combos -----------------------------------------------------------------------

type combo struct {
	name  string
	ipv6  bool
	proto string // "ipv4hdr", "ipv4hdr-options", "tcp", "tcp-options", "udp", "icmp4", "icmp6", "gre"
}

var combos = []combo{
	{"IPv4 header", false, "ipv4hdr"}, {"IPv4 header with options", false, "ipv4hdr-options"},
	{"TCP over IPv4", false, "tcp"}, {"TCP with options over IPv4", false, "tcp-options"}, {"UDP over IPv4", false, "udp"}, {"ICMPv4", false, "icmp4"}, {"GRE with checksum over IPv4", false, "gre"},
	{"TCP over IPv4, 16-byte-form addresses assigned after linking", false, "tcp+addr16"}, {"UDP over IPv4, 16-byte-form addresses assigned after linking", false, "udp+addr16"},
	{"TCP over IPv6", true, "tcp"}, {"UDP over IPv6", true, "udp"}, {"ICMPv6", true, "icmp6"},
	// GRE with a source route entry of k bytes: for odd k the header has an odd length and the
	// payload starts at an odd offset of the checksummed region
	{"GRE with checksum and a 1-byte source route entry", false, "gre-sre1"}, {"GRE with checksum and a 2-byte source route entry", false, "gre-sre2"},
	{"GRE with checksum and a 3-byte source route entry", false, "gre-sre3"}, {"GRE with checksum and a 4-byte source route entry", false, "gre-sre4"},
	{"GRE with checksum and a 7-byte source route entry", false, "gre-sre7"},
}

var payloadLens = []int{0, 1, 2, 3, 4, 5, 8, 9}

type built struct {
	bytes   []byte
	l4off   int // offset of the checked header (IPv4 header: 0)
	l4len   int // bytes covered from l4off (header+payload); IPv4 header: header length
	csumOff int // offset of the checksum field
	skip    map[int]bool
}

var (
	src4 = net.IP{10, 1, 2, 3}
	dst4 = net.IP{192, 168, 200, 77}
	src6 = net.ParseIP("2001:db8::1:2")
	dst6 = net.ParseIP("fe80::fffe:9")
)

func payloadFor(n int, w uint16) []byte {
	p := make([]byte, n)
	for i := range p {
		p[i] = byte(0x31 + i*5)
	}
	if n >= 2 {
		p[0], p[1] = byte(w>>8), byte(w)
	}
	return p
}

var sopts = gopacket.SerializeOptions{FixLengths: true, ComputeChecksums: true}

// usedBuffer returns a cleared serialize buffer whose memory still holds the bytes of an
// earlier, longer packet (0xA5 where prepends land, 0x5A where appends land).
func usedBuffer(n int) gopacket.SerializeBuffer {
	b := gopacket.NewSerializeBuffer()
	p, _ := b.PrependBytes(n)
	for i := range p {
		p[i] = 0xA5
	}
	a, _ := b.AppendBytes(32)
	for i := range a {
		a[i] = 0x5A
	}
	b.Clear()
	return b
}

// build serialises one packet; the 16-bit sweep word w goes into the first two payload
// bytes (payload >= 2) or into a header field that selects no decoder.
func build(c combo, n int, w uint16) (*built, error) {
	addr16 := false
	if strings.HasSuffix(c.proto, "+addr16") {
		addr16 = true
		c.proto = strings.TrimSuffix(c.proto, "+addr16")
	}
	pl := payloadFor(n, w)
	var ls []gopacket.SerializableLayer
	var ipl gopacket.NetworkLayer
	var ip4 *layers.IPv4
	var ip6 *layers.IPv6
	if c.ipv6 {
		ip6 = &layers.IPv6{Version: 6, HopLimit: 64, SrcIP: src6, DstIP: dst6}
		ipl = ip6
		ls = append(ls, ip6)
	} else {
		ip4 = &layers.IPv4{Version: 4, IHL: 5, TTL: 64, SrcIP: src4, DstIP: dst4, Id: 0x1234}
		ipl = ip4
		ls = append(ls, ip4)
	}
	b := &built{skip: map[int]bool{}}
	small := n < 2
	hdr := 0
	sreLen := 0
	switch c.proto {
	case "ipv4hdr", "ipv4hdr-options":
		ip4.Protocol = layers.IPProtocol(253)
		ip4.Id = w
		if c.proto == "ipv4hdr-options" {
			ip4.Options = []layers.IPv4Option{{OptionType: 7, OptionLength: 7, OptionData: []byte{4, 1, 2, 3, 4}}}
		}
	case "tcp", "tcp-options":
		ip4p(ip4, ip6, layers.IPProtocolTCP)
		t := &layers.TCP{SrcPort: 50001, DstPort: 50002, Seq: 7, Ack: 9, ACK: true, Window: 1000}
		if small {
			t.Window = w
		}
		if c.proto == "tcp-options" {
			t.Options = []layers.TCPOption{{OptionType: layers.TCPOptionKindMSS, OptionLength: 4, OptionData: []byte{5, 0xb4}}, {OptionType: layers.TCPOptionKindNop, OptionLength: 1}}
		}
		t.SetNetworkLayerForChecksum(ipl)
		ls = append(ls, t)
		hdr = 16
	case "udp":
		ip4p(ip4, ip6, layers.IPProtocolUDP)
		u := &layers.UDP{SrcPort: 50001, DstPort: 50002}
		if small {
			u.SrcPort = layers.UDPPort(w)
		}
		u.SetNetworkLayerForChecksum(ipl)
		ls = append(ls, u)
		hdr = 6
	case "icmp4":
		ip4.Protocol = layers.IPProtocolICMPv4
		i := &layers.ICMPv4{TypeCode: layers.CreateICMPv4TypeCode(3, 1), Id: 77, Seq: 5}
		if small {
			i.Id = w
		}
		ls = append(ls, i)
		hdr = 2
	case "icmp6":
		ip6.NextHeader = layers.IPProtocolICMPv6
		i := &layers.ICMPv6{TypeCode: layers.CreateICMPv6TypeCode(1, 0)}
		if small {
			i.TypeCode = layers.CreateICMPv6TypeCode(1, uint8(w))
		}
		i.SetNetworkLayerForChecksum(ipl)
		ls = append(ls, i)
		hdr = 2
	case "gre":
		ip4.Protocol = layers.IPProtocolGRE
		g := &layers.GRE{ChecksumPresent: true, KeyPresent: true, Key: 0x01020304, Protocol: layers.EthernetType(0x88b5)}
		if small {
			g.Key = uint32(w)
		}
		ls = append(ls, g)
		hdr = 4
	case "gre-sre1", "gre-sre2", "gre-sre3", "gre-sre4", "gre-sre7":
		ip4.Protocol = layers.IPProtocolGRE
		sreLen = int(c.proto[len(c.proto)-1] - '0')
		ri := make([]byte, sreLen)
		for i := range ri {
			ri[i] = byte(0x61 + i)
		}
		g := &layers.GRE{ChecksumPresent: true, RoutingPresent: true, Protocol: layers.EthernetType(0x88b5),
			GRERouting: &layers.GRERouting{AddressFamily: 0x0800, SREOffset: 0, SRELength: uint8(sreLen), RoutingInformation: ri}}
		if small {
			g.GRERouting.AddressFamily = w | 1 // never the NULL entry
		}
		ls = append(ls, g)
		hdr = 4
	}
	if addr16 {
		// the caller re-targets the packet after the layers were linked, with addresses in
		// the 16-byte form that net.ParseIP / net.IPv4 return
		ip4.SrcIP, ip4.DstIP = net.IPv4(src4[0], src4[1], src4[2], src4[3]), net.IPv4(dst4[0], dst4[1], dst4[2], dst4[3])
	}
	// stale checksum values in the structs (a re-used or decoded layer) must not leak into the output
	for _, l := range ls {
		switch v := l.(type) {
		case *layers.IPv4:
			v.Checksum = 0xbeef
		case *layers.TCP:
			v.Checksum = 0xbeef
		case *layers.UDP:
			v.Checksum = 0xbeef
		case *layers.ICMPv4:
			v.Checksum = 0xbeef
		case *layers.ICMPv6:
			v.Checksum = 0xbeef
		case *layers.GRE:
			v.Checksum = 0xbeef
		}
	}
	ls = append(ls, gopacket.Payload(pl))
	// the packet is written into a buffer that held other bytes before (a re-used, cleared
	// buffer): a checksum computed before every covered byte is in place - padding copied in
	// afterwards, a field filled in later - sums stale bytes and differs from the reference
	buf := usedBuffer(len(pl) + 160)
	if err := gopacket.SerializeLayers(buf, sopts, ls...); err != nil {
		return nil, err
	}
	b.bytes = append([]byte(nil), buf.Bytes()...)
	iphl := 40
	if !c.ipv6 {
		iphl = int(b.bytes[0]&0x0f) * 4
	}
	if c.proto == "ipv4hdr" || c.proto == "ipv4hdr-options" {
		b.l4off, b.l4len, b.csumOff = 0, iphl, 10
		// framing bytes: version/IHL, total length, flags/fragment offset, protocol
		for _, i := range []int{0, 2, 3, 6, 7, 9} {
			b.skip[i] = true
		}
		if c.proto == "ipv4hdr-options" {
			b.skip[20], b.skip[21], b.skip[27] = true, true, true // option type / length, and the end-of-list byte (an option type position)
		}
	} else {
		b.l4off, b.l4len, b.csumOff = iphl, len(b.bytes)-iphl, iphl+hdr
		switch c.proto {
		case "tcp", "tcp-options":
			b.skip[iphl+12] = true // data offset
			if c.proto == "tcp-options" {
				b.skip[iphl+20], b.skip[iphl+21], b.skip[iphl+24] = true, true, true // option kinds / length
			}
		case "udp":
			b.skip[iphl+4], b.skip[iphl+5] = true, true // length
		case "gre":
			b.skip[iphl], b.skip[iphl+1] = true, true // flags
		case "gre-sre1", "gre-sre2", "gre-sre3", "gre-sre4", "gre-sre7":
			b.skip[iphl], b.skip[iphl+1] = true, true // flags
			// framing: the entry's address family / offset / length and the terminating NULL entry
			for i := iphl + 8; i < iphl+12; i++ {
				b.skip[i] = true
			}
			for i := iphl + 12 + sreLen; i < iphl+16+sreLen; i++ {
				b.skip[i] = true
			}
		}
	}
	return b, nil
}

func ip4p(ip4 *layers.IPv4, ip6 *layers.IPv6, p layers.IPProtocol) {
	if ip4 != nil {
		ip4.Protocol = p
	} else {
		ip6.NextHeader = p
	}
}

// reference checksum of the checked region of b.bytes (checksum field taken as zero)
func reference(c combo, pkt []byte, b *built) uint16 {
	c.proto = strings.TrimSuffix(c.proto, "+addr16")
	region := append([]byte(nil), pkt[b.l4off:b.l4off+b.l4len]...)
	region[b.csumOff-b.l4off], region[b.csumOff-b.l4off+1] = 0, 0
	var r uint16
	switch c.proto {
	case "ipv4hdr", "ipv4hdr-options", "icmp4", "gre", "gre-sre1", "gre-sre2", "gre-sre3", "gre-sre4", "gre-sre7":
		r = refChecksum(region)
	default:
		var ph []byte
		var proto byte
		switch c.proto {
		case "tcp", "tcp-options":
			proto = 6
		case "udp":
			proto = 17
		case "icmp6":
			proto = 58
		}
		if c.ipv6 {
			ph = append(ph, pkt[8:40]...)
			l := uint32(len(region))
			ph = append(ph, byte(l>>24), byte(l>>16), byte(l>>8), byte(l), 0, 0, 0, proto)
		} else {
			ph = append(ph, pkt[12:20]...)
			ph = append(ph, 0, proto, byte(len(region)>>8), byte(len(region)))
		}
		r = refChecksum(ph, region)
		if c.proto == "udp" && r == 0 {
			r = 0xffff // RFC 768
		}
	}
	return r
}

type verdict struct {
	valid         bool
	correct, actl uint32
	mismatchTypes []string
	err           string
}

func checkedType(c combo) gopacket.LayerType {
	c.proto = strings.TrimSuffix(c.proto, "+addr16")
	switch c.proto {
	case "ipv4hdr", "ipv4hdr-options":
		return layers.LayerTypeIPv4
	case "tcp", "tcp-options":
		return layers.LayerTypeTCP
	case "udp":
		return layers.LayerTypeUDP
	case "icmp4":
		return layers.LayerTypeICMPv4
	case "icmp6":
		return layers.LayerTypeICMPv6
	}
	return layers.LayerTypeGRE
}

// verify decodes pkt, attaches the network layer where the API requires it and runs both
// the layer's VerifyChecksum and Packet.VerifyChecksums.
func verify(c combo, pkt []byte) (v verdict) {
	c.proto = strings.TrimSuffix(c.proto, "+addr16")
	first := layers.LayerTypeIPv4
	if c.ipv6 {
		first = layers.LayerTypeIPv6
	}
	p := gopacket.NewPacket(pkt, first, gopacket.Default)
	nl := p.NetworkLayer()
	l := p.Layer(checkedType(c))
	if l == nil || nl == nil {
		v.err = "layer not decoded"
		return
	}
	type setter interface {
		SetNetworkLayerForChecksum(gopacket.NetworkLayer) error
	}
	if s, ok := l.(setter); ok {
		s.SetNetworkLayerForChecksum(nl)
	}
	lw, ok := l.(gopacket.LayerWithChecksum)
	if !ok {
		v.err = "layer has no VerifyChecksum"
		return
	}
	err, res := lw.VerifyChecksum()
	if err != nil {
		v.err = err.Error()
		return
	}
	v.valid, v.correct, v.actl = res.Valid, res.Correct, res.Actual
	err, mm := p.VerifyChecksums()
	if err != nil {
		v.err = "VerifyChecksums: " + err.Error()
		return
	}
	for _, m := range mm {
		if m.Layer.LayerType() != layers.LayerTypeIPv4 || checkedType(c) == layers.LayerTypeIPv4 {
			v.mismatchTypes = append(v.mismatchTypes, m.Layer.LayerType().String())
		}
	}
	return
}

// ---- the same layer objects used again after an address was changed ---------------------

// reuse covers the multi-step use of one set of layer objects: (1) a packet is written, then an
// address of the SAME IP layer object is changed (a byte of the slice in place, or the field
// assigned a new slice) and the packet is written again without calling
// SetNetworkLayerForChecksum again: the second checksum must be the reference for the new
// addresses; (2) a decoded transport layer is verified, then a bit of the linked IP layer's
// address is flipped in place and it is verified again: mismatch, Correct = reference.
func reuse(fail func(string, string, int64, any), c combo, n int, st *stats, smu *sync.Mutex) {
	if !(c.proto == "tcp" || c.proto == "udp" || c.proto == "icmp6") {
		return
	}
	defer func() {
		if x := recover(); x != nil {
			k, site := report.PanicKey(x, debug.Stack())
			fail(k, fmt.Sprintf("panic %v at %s in %s payload %d (layer objects used again)", x, site, c.name, n), 0, map[string]any{"combo": c.name, "payload_len": n})
		}
	}()
	var em, ve int64
	for wi := 0; wi < 65536; wi += 257 {
		w := uint16(wi)
		for mode := 0; mode < 4; mode++ { // which address, how it is changed
			pl := payloadFor(n, w)
			var ip4 *layers.IPv4
			var ip6 *layers.IPv6
			var ipl gopacket.NetworkLayer
			var ls []gopacket.SerializableLayer
			if c.ipv6 {
				ip6 = &layers.IPv6{Version: 6, HopLimit: 64, SrcIP: append(net.IP(nil), src6...), DstIP: append(net.IP(nil), dst6...)}
				ipl = ip6
				ls = append(ls, ip6)
			} else {
				ip4 = &layers.IPv4{Version: 4, IHL: 5, TTL: 64, SrcIP: append(net.IP(nil), src4...), DstIP: append(net.IP(nil), dst4...), Id: 0x1234}
				ipl = ip4
				ls = append(ls, ip4)
			}
			switch c.proto {
			case "tcp":
				ip4p(ip4, ip6, layers.IPProtocolTCP)
				t := &layers.TCP{SrcPort: 50001, DstPort: 50002, Seq: 7, Ack: 9, ACK: true, Window: 1000}
				t.SetNetworkLayerForChecksum(ipl)
				ls = append(ls, t)
			case "udp":
				ip4p(ip4, ip6, layers.IPProtocolUDP)
				u := &layers.UDP{SrcPort: 50001, DstPort: 50002}
				u.SetNetworkLayerForChecksum(ipl)
				ls = append(ls, u)
			case "icmp6":
				ip6.NextHeader = layers.IPProtocolICMPv6
				i := &layers.ICMPv6{TypeCode: layers.CreateICMPv6TypeCode(1, 0)}
				i.SetNetworkLayerForChecksum(ipl)
				ls = append(ls, i)
			}
			ls = append(ls, gopacket.Payload(pl))
			buf := gopacket.NewSerializeBuffer()
			hdr := map[string]int{"tcp": 16, "udp": 6, "icmp6": 2}[c.proto]
			check := func(step string) bool {
				if err := gopacket.SerializeLayers(buf, sopts, ls...); err != nil {
					fail("reuse|serialization failed|"+c.name, err.Error(), int64(wi), nil)
					return false
				}
				em++
				pkt := append([]byte(nil), buf.Bytes()...)
				iphl := 40
				if !c.ipv6 {
					iphl = 20
				}
				b := &built{bytes: pkt, l4off: iphl, l4len: len(pkt) - iphl, csumOff: iphl + hdr}
				want := reference(c, pkt, b)
				got := uint16(pkt[b.csumOff])<<8 | uint16(pkt[b.csumOff+1])
				if got != want {
					fail("reuse|written checksum differs from the reference after an address of the same IP layer object was changed|"+c.name,
						fmt.Sprintf("%s payload %d word %#04x, %s: wrote %#04x, reference %#04x", c.name, n, w, step, got, want), int64(wi),
						map[string]any{"combo": c.name, "payload_len": n, "word": w, "step": step, "packet": hex.EncodeToString(pkt)})
					return false
				}
				return true
			}
			if !check("first write") {
				continue
			}
			addr := func() *net.IP {
				if c.ipv6 {
					if mode&1 == 0 {
						return &ip6.SrcIP
					}
					return &ip6.DstIP
				}
				if mode&1 == 0 {
					return &ip4.SrcIP
				}
				return &ip4.DstIP
			}()
			step := ""
			if mode&2 == 0 {
				(*addr)[len(*addr)-1] ^= 0x40 // in place
				step = "a byte of the address slice changed in place"
			} else {
				na := append(net.IP(nil), *addr...)
				na[1] ^= 0x01
				*addr = na // the field assigned a new slice
				step = "the address field assigned a new slice"
			}
			if mode&1 == 0 {
				step = "source: " + step
			} else {
				step = "destination: " + step
			}
			check("second write, " + step)
		}
		// verification with the same linked objects
		b, err := build(c, n, w)
		if err != nil {
			continue
		}
		first := layers.LayerTypeIPv4
		if c.ipv6 {
			first = layers.LayerTypeIPv6
		}
		for which := 0; which < 2; which++ {
			pkt := append([]byte(nil), b.bytes...)
			p := gopacket.NewPacket(pkt, first, gopacket.DecodeOptions{NoCopy: true})
			nl, l := p.NetworkLayer(), p.Layer(checkedType(c))
			if nl == nil || l == nil {
				continue
			}
			type setter interface {
				SetNetworkLayerForChecksum(gopacket.NetworkLayer) error
			}
			l.(setter).SetNetworkLayerForChecksum(nl)
			lw := l.(gopacket.LayerWithChecksum)
			if err, res := lw.VerifyChecksum(); err != nil || !res.Valid {
				continue // reported by the sweep
			}
			var a net.IP
			switch v := nl.(type) {
			case *layers.IPv4:
				a = v.SrcIP
				if which == 1 {
					a = v.DstIP
				}
			case *layers.IPv6:
				a = v.SrcIP
				if which == 1 {
					a = v.DstIP
				}
			}
			a[len(a)-1] ^= 0x04 // with NoCopy the address aliases pkt: the packet bytes change with it
			ve++
			want := reference(c, pkt, b)
			stored := uint16(pkt[b.csumOff])<<8 | uint16(pkt[b.csumOff+1])
			err, res := lw.VerifyChecksum()
			if err != nil {
				fail("reuse|error while verifying after an address bit of the linked IP layer was flipped|"+c.name, err.Error(), int64(wi), nil)
				continue
			}
			if c.proto == "udp" && stored == 0 {
				continue
			}
			if res.Valid {
				fail("reuse|corrupted packet accepted: verification ignores a change of the linked IP layer's address|"+c.name,
					fmt.Sprintf("%s payload %d word %#04x: address bit flipped in place after the first verification, VerifyChecksum still reports Valid (Correct=%#x Actual=%#x, reference %#x)", c.name, n, w, res.Correct, res.Actual, want), int64(wi),
					map[string]any{"combo": c.name, "payload_len": n, "word": w, "packet": hex.EncodeToString(pkt)})
			} else if uint16(res.Correct) != want && !(c.proto == "udp" && want == 0xffff && res.Correct == 0) {
				fail("reuse|expected checksum after an address change is not the reference|"+c.name, fmt.Sprintf("Correct=%#x reference %#x", res.Correct, want), int64(wi), nil)
			}
		}
	}
	smu.Lock()
	st.emissions += em
	st.flips += ve
	smu.Unlock()
}

// ---- driver -----------------------------------------------------------------------

type stats struct {
	emissions, verifies, flips int64
	outcomes                   [65536]bool
}

func main() {
	r := report.New("C08", "exploration")
	var mu sync.Mutex
	fail := func(key, what string, order int64, replay any) {
		mu.Lock()
		r.Violation(key, what, order, replay)
		mu.Unlock()
	}
	workers := runtime.NumCPU()
	// 1. FoldChecksum for all 2^32 accumulator values
	var foldBad int64
	var wg sync.WaitGroup
	for w := 0; w < workers; w++ {
		wg.Add(1)
		go func(w int) {
			defer wg.Done()
			lo := uint64(w) << 32 / uint64(workers)
			hi := uint64(w+1) << 32 / uint64(workers)
			for x := lo; x < hi; x++ {
				if gopacket.FoldChecksum(uint32(x)) != refFold(x) {
					if atomic.AddInt64(&foldBad, 1) < 5 {
						fail("fold|FoldChecksum disagrees with the end-around-carry sum", fmt.Sprintf("FoldChecksum(%#x)=%#x want %#x", x, gopacket.FoldChecksum(uint32(x)), refFold(x)), int64(x), map[string]any{"x": x})
					}
				}
			}
		}(w)
	}
	wg.Wait()
	evals := int64(1) << 32
	// 2. ComputeChecksum against the exact sum: all strings of length <=2 (thorough 3), constant fills up to 70000 bytes
	cs := []uint32{0, 1, 0xffff, 0x10000, 0x12345678}
	maxLen := 2
	if r.Thorough() {
		maxLen = 3
	}
	var sumEvals int64
	checkSum := func(d []byte, c uint32) {
		sumEvals++
		got := gopacket.FoldChecksum(gopacket.ComputeChecksum(d, c))
		want := refFold(uint64(c>>16) + uint64(c&0xffff) + refSum(d))
		if got != want {
			fail("sum|ComputeChecksum+Fold disagrees with RFC 1071", fmt.Sprintf("data %d bytes (%x...) initial %#x: got %#x want %#x", len(d), d[:min(len(d), 8)], c, got, want), int64(len(d)), map[string]any{"len": len(d), "head": hex.EncodeToString(d[:min(len(d), 16)]), "initial": c})
		}
	}
	var rec func(p []byte)
	rec = func(p []byte) {
		for _, c := range cs {
			checkSum(p, c)
		}
		if len(p) == maxLen {
			return
		}
		for b := 0; b < 256; b++ {
			rec(append(p, byte(b)))
		}
	}
	rec(nil)
	for _, fill := range []byte{0x00, 0x01, 0x7f, 0x80, 0xff} {
		buf := make([]byte, 70001)
		for i := range buf {
			buf[i] = fill
		}
		for n := 0; n <= 70000; n += 1 + n/97 {
			for _, c := range cs[:3] {
				checkSum(buf[:n], c)
			}
		}
		checkSum(buf[:65535], 0)
		checkSum(buf[:65536], 0)
		checkSum(buf[:70000], 0x1ffff)
	}
	evals += sumEvals
	// 3. emission + verification + single-bit corruption
	type job struct {
		ci, li int
	}
	jobs := make(chan job, 256)
	go func() {
		for ci := range combos {
			for li := range payloadLens {
				jobs <- job{ci, li}
			}
		}
		close(jobs)
	}()
	var st stats
	var smu sync.Mutex
	var samples []any
	for w := 0; w < workers; w++ {
		wg.Add(1)
		go func() {
			defer wg.Done()
			for j := range jobs {
				c, n := combos[j.ci], payloadLens[j.li]
				sweep(r, fail, c, n, &st, &smu, &samples)
				reuse(fail, c, n, &st, &smu)
			}
		}()
	}
	wg.Wait()
	distinct := 0
	for _, b := range st.outcomes {
		if b {
			distinct++
		}
	}
	evals += st.emissions + st.flips
	r.Coverage["evaluations"] = evals
	r.Coverage["distinct_nontrivial"] = distinct
	r.Coverage["fold_values"] = int64(1) << 32
	r.Coverage["sum_evaluations"] = sumEvals
	r.Coverage["emissions"] = st.emissions
	r.Coverage["verifications_of_intact_packets"] = st.verifies
	r.Coverage["single_bit_corruptions_verified"] = st.flips
	r.Coverage["combos"] = fmt.Sprint(combos)
	r.Coverage["payload_lengths"] = fmt.Sprint(payloadLens)
	r.Coverage["samples"] = samples
	r.Coverage["rule"] = "FoldChecksum for all 2^32 values; ComputeChecksum for all byte strings of length <=2 [thorough 3] x 5 initial values and constant fills up to 70000 bytes, against an exact 64-bit sum; for each protocol/pseudo-header combination x payload length in {0,1,2,3,4,5,8,9} x all 65536 values of one 16-bit word (first payload word, or a header field for payloads shorter than 2): the checksum bytes written by SerializeLayers(ComputeChecksums) must equal the reference, the decoded packet must verify as valid with Correct == reference (layer VerifyChecksum after attaching the network layer, and Packet.VerifyChecksums); for word values = 0 mod 257 [thorough: all] and the values producing checksum 0x0000/0xffff, every single bit of every covered byte (header, payload, pseudo-header addresses, checksum field; framing fields excluded) is flipped and verification must report invalid with Correct == reference of the corrupted data (UDP: stored 0 means no checksum). GRE also with one source route entry of 1,2,3,4,7 bytes (odd header lengths). Same objects used again: for TCP/UDP/ICMPv6 x 256 word values, a packet is written, an address of the same IP layer object is changed (in place / new slice, source / destination) and the packet written again without re-linking: reference checksum for the new addresses; a verified decoded layer is verified again after an address bit of the linked IP layer was flipped in place: mismatch with Correct == reference. distinct_nontrivial = distinct checksum values emitted (out of 65536)."
	r.Assumptions = []string{"the reference (refSum/refFold, 25 lines, exact 64-bit integer arithmetic, RFC 768 zero rule for UDP) is correct", "bit flips in framing fields (header lengths, protocol numbers, flag words that change the layout) are not applied"}
	r.Finish()
}

func sweep(r *report.Run, fail func(string, string, int64, any), c0 combo, n int, st *stats, smu *sync.Mutex, samples *[]any) {
	c := c0
	c.proto = strings.TrimSuffix(c.proto, "+addr16")
	_ = c0
	defer func() {
		if x := recover(); x != nil {
			k, site := report.PanicKey(x, debug.Stack())
			fail(k, fmt.Sprintf("panic %v at %s in %s payload %d", x, site, c.name, n), 0, map[string]any{"combo": c.name, "payload_len": n})
		}
	}()
	var em, ve, fl int64
	seen := make([]bool, 65536)
	desc := func(w uint16, pkt []byte, extra string) map[string]any {
		return map[string]any{"combo": c.name, "payload_len": n, "word": w, "packet": hex.EncodeToString(pkt), "detail": extra}
	}
	var zeroW, onesW = -1, -1
	for wi := 0; wi < 65536; wi++ {
		w := uint16(wi)
		b, err := build(c0, n, w)
		if err != nil {
			fail("emit|serialization failed|"+c.name, err.Error(), int64(wi), desc(w, nil, ""))
			return
		}
		em++
		want := reference(c, b.bytes, b)
		got := uint16(b.bytes[b.csumOff])<<8 | uint16(b.bytes[b.csumOff+1])
		seen[got] = true
		if got == 0 && zeroW < 0 {
			zeroW = wi
		}
		if got == 0xffff && onesW < 0 {
			onesW = wi
		}
		if got != want {
			fail("emit|written checksum differs from the reference|"+c.name, fmt.Sprintf("%s payload %d word %#04x: wrote %#04x, reference %#04x", c.name, n, w, got, want), int64(wi), desc(w, b.bytes, ""))
			continue
		}
		v := verify(c, b.bytes)
		ve++
		if v.err != "" {
			fail("verify|error on an intact packet|"+c.name, v.err, int64(wi), desc(w, b.bytes, v.err))
			continue
		}
		if !v.valid || len(v.mismatchTypes) != 0 {
			fail("verify|valid packet rejected|"+c.name, fmt.Sprintf("%s payload %d word %#04x checksum %#04x: Valid=%v Correct=%#x Actual=%#x mismatches=%v", c.name, n, w, got, v.valid, v.correct, v.actl, v.mismatchTypes), int64(wi), desc(w, b.bytes, ""))
		} else if uint16(v.correct) != want && !(c.proto == "udp" && want == 0xffff && v.correct == 0) {
			fail("verify|Correct is not the reference value|"+c.name, fmt.Sprintf("Correct=%#x reference %#x", v.correct, want), int64(wi), desc(w, b.bytes, ""))
		}
		if wi == 0x1234 && n == 3 {
			smu.Lock()
			*samples = append(*samples, desc(w, b.bytes, fmt.Sprintf("checksum %#04x", got)))
			smu.Unlock()
		}
	}
	// single-bit corruption
	var words []int
	if r.Thorough() {
		for wi := 0; wi < 65536; wi += 17 {
			words = append(words, wi)
		}
	} else {
		for wi := 0; wi < 65536; wi += 257 {
			words = append(words, wi)
		}
	}
	if zeroW >= 0 {
		words = append(words, zeroW)
	}
	if onesW >= 0 {
		words = append(words, onesW)
	}
	for _, wi := range words {
		w := uint16(wi)
		b, err := build(c0, n, w)
		if err != nil {
			continue
		}
		// covered bytes: the checked region and the pseudo-header addresses
		var offs []int
		for i := b.l4off; i < b.l4off+b.l4len; i++ {
			offs = append(offs, i)
		}
		if b.l4off > 0 {
			if c.ipv6 {
				for i := 8; i < 40; i++ {
					offs = append(offs, i)
				}
			} else if c.proto != "icmp4" && !strings.HasPrefix(c.proto, "gre") {
				for i := 12; i < 20; i++ {
					offs = append(offs, i)
				}
			}
		}
		for _, off := range offs {
			if b.skip[off] {
				continue
			}
			for bit := 0; bit < 8; bit++ {
				pkt := append([]byte(nil), b.bytes...)
				pkt[off] ^= 1 << bit
				if !c.ipv6 && b.l4off > 0 && off >= 12 && off < 20 {
					// keep the IPv4 header checksum consistent so only the L4 checksum is in question
					pkt[10], pkt[11] = 0, 0
					h := refChecksum(pkt[:b.l4off])
					pkt[10], pkt[11] = byte(h>>8), byte(h)
				}
				fl++
				v := verify(c, pkt)
				stored := uint16(pkt[b.csumOff])<<8 | uint16(pkt[b.csumOff+1])
				want := reference(c, pkt, b)
				if v.err != "" {
					fail("flip|error while verifying a corrupted packet|"+c.name, v.err, int64(wi), desc(w, pkt, fmt.Sprintf("bit %d of byte %d", bit, off)))
					continue
				}
				if c.proto == "udp" && stored == 0 {
					if !v.valid {
						fail("flip|UDP stored checksum 0 must mean no checksum|"+c.name, "reported invalid", int64(wi), desc(w, pkt, ""))
					}
					continue
				}
				if v.valid || len(v.mismatchTypes) != 1 {
					fail("flip|corrupted packet accepted|"+c.name, fmt.Sprintf("%s payload %d word %#04x, bit %d of byte %d flipped: Valid=%v mismatches=%v", c.name, n, w, bit, off, v.valid, v.mismatchTypes), int64(wi), desc(w, pkt, fmt.Sprintf("bit %d of byte %d", bit, off)))
				} else if uint16(v.correct) != want && !(c.proto == "udp" && want == 0xffff && v.correct == 0) {
					fail("flip|expected checksum reported for a corrupted packet is not the reference|"+c.name, fmt.Sprintf("Correct=%#x reference %#x (bit %d of byte %d)", v.correct, want, bit, off), int64(wi), desc(w, pkt, ""))
				}
			}
		}
	}
	smu.Lock()
	st.emissions += em
	st.verifies += ve
	st.flips += fl
	for i, s := range seen {
		if s {
			st.outcomes[i] = true
		}
	}
	smu.Unlock()
	_ = os.Stdout
}
