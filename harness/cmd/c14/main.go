// C14: capture files round-trip; a truncated file yields a true prefix of packets.
package main

import (
	"bytes"
	"encoding/binary"
	"errors"
	"fmt"
	"io"
	"os"
	"path/filepath"
	"reflect"
	"runtime"
	"runtime/debug"
	"sync"
	"sync/atomic"
	"time"

	"github.com/gopacket/gopacket"
	"github.com/gopacket/gopacket/layers"
	"github.com/gopacket/gopacket/pcap"
	"github.com/gopacket/gopacket/pcapgo"

	"verif/engine/report"
)

type pkt struct {
	data []byte
	ci   gopacket.CaptureInfo
	opts pcapgo.NgPacketOptions
	intf *pcapgo.NgInterface // the packet's interface when the file has several sections (else f.intfs[ci.InterfaceIndex])
}

// intfOf is the description of the interface the packet was written on.
func (f *file) intfOf(w pkt) (pcapgo.NgInterface, bool) {
	if w.intf != nil {
		return *w.intf, true
	}
	if w.ci.InterfaceIndex < len(f.intfs) {
		return f.intfs[w.ci.InterfaceIndex], true
	}
	return pcapgo.NgInterface{}, false
}

// joinNg concatenates complete pcapng files into one file of several sections (what appending a
// new capture to an existing file produces); interface numbers start again in every section.
func joinNg(desc string, parts ...*file) *file {
	f := &file{kind: "pcapng", desc: desc}
	for _, p := range parts {
		for i, w := range p.pkts {
			in := p.intfs[w.ci.InterfaceIndex]
			w.intf = &in
			f.pkts = append(f.pkts, w)
			f.ends = append(f.ends, len(f.bytes)+p.ends[i])
		}
		f.bytes = append(f.bytes, p.bytes...)
		f.intfs, f.sect, f.linkTy = p.intfs, p.sect, p.linkTy // the reader describes the section it is in
		f.mixed = f.mixed || p.mixed
	}
	return f
}

type file struct {
	kind   string // pcap-micro, pcap-nano, pcapng
	desc   string
	bytes  []byte
	ends   []int // file offset at which packet i is completely written
	pkts   []pkt
	intfs  []pcapgo.NgInterface
	sect   pcapgo.NgSectionInfo
	mixed  bool
	linkTy layers.LinkType
}

var stamps = []time.Time{time.Unix(1, 0), time.Unix(1, 1), time.Unix(1, 999999999), time.Unix(1<<31-1, 123456789), time.Unix(1<<32-1, 5000)}

func payload(n int, seed byte) []byte {
	d := make([]byte, n)
	for i := range d {
		d[i] = seed + byte(i*3)
	}
	return d
}

type ctx struct {
	r     *report.Run
	mu    sync.Mutex
	files int64
	reads int64
	cuts  int64
	lib   int64
	outc  sync.Map
	tmp   string
}

func (c *ctx) fail(key, what string, f *file, extra map[string]any) {
	ex := map[string]any{"kind": f.kind, "file": f.desc, "file_hex_len": len(f.bytes)}
	for k, v := range extra {
		ex[k] = v
	}
	c.mu.Lock()
	c.r.Violation("c14|"+key+"|"+f.kind, what+"; file: "+f.desc, int64(len(f.bytes)), ex)
	c.mu.Unlock()
}

// ---- writing ----------------------------------------------------------------------

func writePcap(nano bool, pk []pkt, desc string) (*file, error) {
	return writePcapSnap(nano, pk, desc, 65535)
}

func writePcapSnap(nano bool, pk []pkt, desc string, snap uint32) (*file, error) {
	var b bytes.Buffer
	var w *pcapgo.Writer
	f := &file{kind: "pcap-micro", desc: desc, pkts: pk, linkTy: layers.LinkTypeEthernet}
	if nano {
		w = pcapgo.NewWriterNanos(&b)
		f.kind = "pcap-nano"
	} else {
		w = pcapgo.NewWriter(&b)
	}
	if err := w.WriteFileHeader(snap, layers.LinkTypeEthernet); err != nil {
		return nil, err
	}
	for _, p := range pk {
		if err := w.WritePacket(p.ci, p.data); err != nil {
			return nil, err
		}
		f.ends = append(f.ends, b.Len())
	}
	f.bytes = append([]byte(nil), b.Bytes()...)
	return f, nil
}

func writeNg(intfs []pcapgo.NgInterface, sect pcapgo.NgSectionInfo, pk []pkt, desc string) (*file, error) {
	var b bytes.Buffer
	f := &file{kind: "pcapng", desc: desc, pkts: pk, intfs: intfs, sect: sect, linkTy: intfs[0].LinkType}
	w, err := pcapgo.NewNgWriterInterface(&b, intfs[0], pcapgo.NgWriterOptions{SectionInfo: sect})
	if err != nil {
		return nil, err
	}
	for _, in := range intfs[1:] {
		if _, err := w.AddInterface(in); err != nil {
			return nil, err
		}
		if in.LinkType != intfs[0].LinkType {
			f.mixed = true
		}
	}
	for _, p := range pk {
		if err := w.WritePacketWithOptions(p.ci, p.data, p.opts); err != nil {
			return nil, err
		}
		if err := w.Flush(); err != nil {
			return nil, err
		}
		f.ends = append(f.ends, b.Len())
	}
	w.Flush()
	f.bytes = append([]byte(nil), b.Bytes()...)
	return f, nil
}

// ---- reading ----------------------------------------------------------------------

type got struct {
	data     []byte
	ci       gopacket.CaptureInfo
	opts     pcapgo.NgPacketOptions
	withOpts bool // read with a ...WithOptions call
}

type readResult struct {
	pkts    []got
	err     error // error that ended the read (io.EOF for a clean end)
	ctorErr bool
	intfs   []pcapgo.NgInterface
	sect    pcapgo.NgSectionInfo
}

// mode: 0 ReadPacketData, 1 ZeroCopyReadPacketData, 2 ReadPacketDataWithOptions, 3 ZeroCopy...WithOptions, 4 alternating
func readAll(f *file, data []byte, mode int) (res readResult) {
	rd := bytes.NewReader(data)
	max := len(f.pkts) + 3
	if f.kind == "pcapng" {
		r, err := pcapgo.NewNgReader(rd, pcapgo.NgReaderOptions{WantMixedLinkType: f.mixed})
		if err != nil {
			res.err, res.ctorErr = err, true
			return
		}
		for i := 0; i < max; i++ {
			var d []byte
			var ci gopacket.CaptureInfo
			var o pcapgo.NgPacketOptions
			var err error
			m := mode
			if mode == 4 {
				m = i % 4
			}
			switch m {
			case 0:
				d, ci, err = r.ReadPacketData()
			case 1:
				d, ci, err = r.ZeroCopyReadPacketData()
			case 2:
				d, ci, o, err = r.ReadPacketDataWithOptions()
			case 3:
				d, ci, o, err = r.ZeroCopyReadPacketDataWithOptions()
			}
			if err != nil {
				res.err = err
				break
			}
			g := got{data: append([]byte(nil), d...), ci: ci, opts: o, withOpts: m >= 2}
			if (m == 1 || m == 3) && len(ci.AncillaryData) > 0 {
				// only the zero-copy calls document that data and ancillary data are re-used;
				// what a copying call returned is kept as it is and compared after all reads
				g.ci.AncillaryData = append([]interface{}(nil), ci.AncillaryData...)
			}
			if m == 0 || m == 2 {
				g.data = d
			}
			res.pkts = append(res.pkts, g)
		}
		for i := 0; i < r.NInterfaces(); i++ {
			in, _ := r.Interface(i)
			res.intfs = append(res.intfs, in)
		}
		res.sect = r.SectionInfo()
		return
	}
	r, err := pcapgo.NewReader(rd)
	if err != nil {
		res.err, res.ctorErr = err, true
		return
	}
	for i := 0; i < max; i++ {
		var d []byte
		var ci gopacket.CaptureInfo
		var err error
		if mode%2 == 0 || (mode == 4 && i%2 == 0) {
			d, ci, err = r.ReadPacketData()
		} else {
			d, ci, err = r.ZeroCopyReadPacketData()
		}
		if err != nil {
			res.err = err
			break
		}
		if mode%2 == 0 || (mode == 4 && i%2 == 0) {
			res.pkts = append(res.pkts, got{data: d, ci: ci}) // a copying read: kept without a defensive copy
		} else {
			res.pkts = append(res.pkts, got{data: append([]byte(nil), d...), ci: ci})
		}
	}
	return
}

func normOpts(o pcapgo.NgPacketOptions) string {
	s := fmt.Sprintf("comments=%q", o.Comments)
	if o.Flags != nil {
		s += fmt.Sprintf(" flags=%+v", *o.Flags)
	}
	for _, h := range o.Hashes {
		s += fmt.Sprintf(" hash=%d:%x", h.Algorithm, h.Hash)
	}
	for _, v := range o.Verdicts {
		s += fmt.Sprintf(" verdict=%d:%x", v.Type, v.Data)
	}
	if o.DropCount != nil {
		s += fmt.Sprintf(" drop=%d", *o.DropCount)
	}
	if o.PacketID != nil {
		s += fmt.Sprintf(" id=%d", *o.PacketID)
	}
	if o.Queue != nil {
		s += fmt.Sprintf(" queue=%d", *o.Queue)
	}
	return s
}

// comparePacket: what was written vs what was read
func (c *ctx) comparePacket(f *file, i int, g got, withOpts bool, how string) bool {
	w := f.pkts[i]
	ex := map[string]any{"packet": i, "read_call": how}
	if !bytes.Equal(g.data, w.data) {
		c.fail("roundtrip|packet-bytes-differ", fmt.Sprintf("packet %d read back as %x, written %x (%s)", i, g.data, w.data, how), f, ex)
		return false
	}
	if g.ci.CaptureLength != w.ci.CaptureLength || g.ci.Length != w.ci.Length {
		c.fail("roundtrip|lengths-differ", fmt.Sprintf("packet %d: CaptureLength/Length read %d/%d written %d/%d (%s)", i, g.ci.CaptureLength, g.ci.Length, w.ci.CaptureLength, w.ci.Length, how), f, ex)
		return false
	}
	wantTS := w.ci.Timestamp
	if f.kind == "pcap-micro" {
		wantTS = wantTS.Truncate(time.Microsecond)
	}
	win, haveIn := f.intfOf(w)
	if f.kind == "pcapng" && !g.ci.Timestamp.Equal(wantTS) && haveIn && win.TimestampOffset != 0 &&
		g.ci.Timestamp.Sub(wantTS) == time.Duration(win.TimestampOffset)*time.Second {
		c.fail("roundtrip|timestamp-shifted-by-if_tsoffset", fmt.Sprintf("packet %d: written %v, read back %v: the writer announces if_tsoffset=%d but does not take it off the timestamps it writes, the reader adds it (%s)", i, wantTS.UTC(), g.ci.Timestamp.UTC(), win.TimestampOffset, how), f, ex)
		return true // the rest of the packet is still compared by the other reads
	}
	if !g.ci.Timestamp.Equal(wantTS) {
		c.fail("roundtrip|timestamp-differs", fmt.Sprintf("packet %d: timestamp read %v written %v (%s)", i, g.ci.Timestamp.UTC(), wantTS.UTC(), how), f, ex)
		return false
	}
	if f.kind == "pcapng" {
		if g.ci.InterfaceIndex != w.ci.InterfaceIndex {
			c.fail("roundtrip|interface-index-differs", fmt.Sprintf("packet %d: interface %d written %d", i, g.ci.InterfaceIndex, w.ci.InterfaceIndex), f, ex)
			return false
		}
		if f.mixed {
			if len(g.ci.AncillaryData) != 1 || g.ci.AncillaryData[0] != win.LinkType {
				c.fail("roundtrip|link-type-differs", fmt.Sprintf("packet %d: ancillary link type %v, interface has %v (%s)", i, g.ci.AncillaryData, win.LinkType, how), f, ex)
				return false
			}
		}
		if withOpts && g.withOpts && normOpts(g.opts) != normOpts(w.opts) {
			c.fail("roundtrip|packet-options-differ", fmt.Sprintf("packet %d: options read {%s} written {%s} (%s)", i, normOpts(g.opts), normOpts(w.opts), how), f, ex)
			return false
		}
	}
	return true
}

var modeNames = []string{"ReadPacketData", "ZeroCopyReadPacketData", "ReadPacketDataWithOptions", "ZeroCopyReadPacketDataWithOptions", "alternating read calls"}

func isEOFKind(err error) bool {
	return errors.Is(err, io.EOF) || errors.Is(err, io.ErrUnexpectedEOF)
}

func (c *ctx) check(f *file, libpcapToo bool) {
	defer func() {
		if x := recover(); x != nil {
			k, site := report.PanicKey(x, debug.Stack())
			c.fail(k, fmt.Sprintf("panic %v at %s", x, site), f, nil)
		}
	}()
	atomic.AddInt64(&c.files, 1)
	nm := 2
	if f.kind == "pcapng" {
		nm = 5
	}
	// 1. round trip of the whole file
	for m := 0; m < nm; m++ {
		mode := m
		if f.kind != "pcapng" && m == 1 {
			mode = 1
		}
		res := readAll(f, f.bytes, mode)
		atomic.AddInt64(&c.reads, 1)
		if res.ctorErr {
			c.fail("roundtrip|reader-rejects-file", fmt.Sprintf("constructor error %v", res.err), f, nil)
			return
		}
		if len(res.pkts) != len(f.pkts) || res.err != io.EOF {
			c.fail("roundtrip|packet-count-or-end", fmt.Sprintf("%d packets read (written %d), final error %v, want io.EOF (%s)", len(res.pkts), len(f.pkts), res.err, modeNames[mode]), f, nil)
			return
		}
		for i, g := range res.pkts {
			if !c.comparePacket(f, i, g, true, modeNames[mode]) {
				return
			}
		}
		if f.kind == "pcapng" && m == 0 {
			if len(res.intfs) != len(f.intfs) {
				c.fail("roundtrip|interface-count", fmt.Sprintf("%d interfaces read, %d written", len(res.intfs), len(f.intfs)), f, nil)
				return
			}
			for i, in := range res.intfs {
				w := f.intfs[i]
				if in.Name != w.Name || in.Comment != w.Comment || in.Description != w.Description || in.Filter != w.Filter || in.OS != w.OS || in.LinkType != w.LinkType || in.SnapLength != w.SnapLength || in.TimestampOffset != w.TimestampOffset {
					c.fail("roundtrip|interface-description-differs", fmt.Sprintf("interface %d read {name %q comment %q desc %q filter %q os %q link %v snap %d tsoffset %d} written {name %q comment %q desc %q filter %q os %q link %v snap %d tsoffset %d}", i,
						in.Name, in.Comment, in.Description, in.Filter, in.OS, in.LinkType, in.SnapLength, in.TimestampOffset, w.Name, w.Comment, w.Description, w.Filter, w.OS, w.LinkType, w.SnapLength, w.TimestampOffset), f, nil)
					return
				}
			}
			if !reflect.DeepEqual(res.sect, f.sect) {
				c.fail("roundtrip|section-info-differs", fmt.Sprintf("read %+v written %+v", res.sect, f.sect), f, nil)
				return
			}
		}
	}
	// 1b. pcapng framing: the file is a sequence of blocks whose total length stands at both ends
	// (what every other pcapng reader, libpcap included, walks the file by)
	if f.kind == "pcapng" {
		for off, nb := 0, 0; off < len(f.bytes); nb++ {
			if len(f.bytes)-off < 12 {
				c.fail("framing|trailing-bytes", fmt.Sprintf("%d bytes after the last block (block %d at offset %d)", len(f.bytes)-off, nb, off), f, nil)
				return
			}
			tl := int(binary.LittleEndian.Uint32(f.bytes[off+4:]))
			if tl < 12 || tl%4 != 0 || off+tl > len(f.bytes) {
				c.fail("framing|block-length", fmt.Sprintf("block %d at offset %d announces total length %d (file has %d bytes)", nb, off, tl, len(f.bytes)), f, nil)
				return
			}
			if tr := int(binary.LittleEndian.Uint32(f.bytes[off+tl-4:])); tr != tl {
				c.fail("framing|trailer-differs-from-header-length", fmt.Sprintf("block %d (type %#x) at offset %d: total length %d in its header, %d in its trailer", nb, binary.LittleEndian.Uint32(f.bytes[off:]), off, tl, tr), f, nil)
				return
			}
			off += tl
		}
	}
	// 2. every truncation offset: exactly the wholly contained packets, unaltered, then EOF / unexpected EOF
	mode := 0
	for cut := 0; cut < len(f.bytes); cut++ {
		if len(f.bytes) > 20000 && cut > 64 && cut < len(f.bytes)-256 && cut%4099 != 0 {
			continue // a file with a very long option string: the first and last bytes and a stride in between
		}
		atomic.AddInt64(&c.cuts, 1)
		if f.kind == "pcapng" {
			mode = cut % 5
		} else {
			mode = cut % 2
		}
		res := readAll(f, f.bytes[:cut], mode)
		want := 0
		for _, e := range f.ends {
			if e <= cut {
				want++
			}
		}
		ex := map[string]any{"cut_offset": cut, "read_call": modeNames[mode]}
		if res.err == nil || !isEOFKind(res.err) {
			c.fail("truncation|wrong-final-error", fmt.Sprintf("file cut at %d of %d: reading ended with %v, want io.EOF or io.ErrUnexpectedEOF (%s)", cut, len(f.bytes), res.err, modeNames[mode]), f, ex)
			return
		}
		if len(res.pkts) != want {
			c.fail("truncation|not-exactly-the-contained-packets", fmt.Sprintf("file cut at %d of %d (packet ends %v): %d packets returned, %d are wholly contained (%s)", cut, len(f.bytes), f.ends, len(res.pkts), want, modeNames[mode]), f, ex)
			return
		}
		for i, g := range res.pkts {
			if !c.comparePacket(f, i, g, true, "cut at "+fmt.Sprint(cut)+", "+modeNames[mode]) {
				return
			}
		}
	}
	// 3. libpcap reads the same packets
	if libpcapToo {
		c.libpcap(f)
	}
	c.outc.Store(fmt.Sprintf("%s/%d/%d", f.kind, len(f.pkts), len(f.bytes)%64), true)
}

func (c *ctx) libpcap(f *file) {
	p := filepath.Join(c.tmp, fmt.Sprintf("f-%d-%d.cap", os.Getpid(), atomic.AddInt64(&c.lib, 1)))
	if err := os.WriteFile(p, f.bytes, 0o644); err != nil {
		return
	}
	defer os.Remove(p)
	h, err := pcap.OpenOffline(p)
	if err != nil {
		if f.kind == "pcapng" {
			return // libpcap does not accept every pcapng feature; only files it opens are compared
		}
		c.fail("libpcap|cannot-open", err.Error(), f, nil)
		return
	}
	defer h.Close()
	if f.mixed {
		return
	}
	for i := range f.pkts {
		d, ci, err := h.ReadPacketData()
		if err != nil {
			c.fail("libpcap|fewer-packets", fmt.Sprintf("libpcap stopped at packet %d: %v", i, err), f, nil)
			return
		}
		w := f.pkts[i]
		if !bytes.Equal(d, w.data) || ci.CaptureLength != w.ci.CaptureLength || ci.Length != w.ci.Length {
			c.fail("libpcap|packet-differs", fmt.Sprintf("packet %d: libpcap read %d bytes caplen %d len %d, written %d/%d/%d", i, len(d), ci.CaptureLength, ci.Length, len(w.data), w.ci.CaptureLength, w.ci.Length), f, nil)
			return
		}
		ts := w.ci.Timestamp
		if f.kind == "pcap-micro" {
			ts = ts.Truncate(time.Microsecond)
		}
		if win, ok := f.intfOf(w); f.kind == "pcapng" && ok && win.TimestampOffset != 0 &&
			ci.Timestamp.Truncate(time.Microsecond).Sub(ts.Truncate(time.Microsecond)) == time.Duration(win.TimestampOffset)*time.Second {
			c.fail("libpcap|timestamp-shifted-by-if_tsoffset", fmt.Sprintf("packet %d: libpcap reads %v, written %v (if_tsoffset=%d announced but not taken off by the writer)", i, ci.Timestamp.UTC(), ts.UTC(), win.TimestampOffset), f, nil)
			continue
		}
		if ts.Unix() < 1<<31 && !ci.Timestamp.Equal(ts) && !ci.Timestamp.Equal(ts.Truncate(time.Microsecond)) {
			c.fail("libpcap|timestamp-differs", fmt.Sprintf("packet %d: libpcap %v written %v", i, ci.Timestamp.UTC(), ts.UTC()), f, nil)
			return
		}
	}
	if _, _, err := h.ReadPacketData(); err == nil {
		c.fail("libpcap|more-packets", "libpcap returned more packets than were written", f, nil)
	}
}

// ---- spaces -----------------------------------------------------------------------

func str(n int) string {
	if n <= 8 {
		return "abcdefgh"[:n]
	}
	b := make([]byte, n)
	for i := range b {
		b[i] = byte('a' + i%23)
	}
	return string(b)
}

var base14 = pcapgo.NgInterface{Name: "eth", Comment: "", Description: "", Filter: "", OS: "os", LinkType: layers.LinkTypeEthernet, SnapLength: 0, TimestampResolution: 9}
var sbase14 = pcapgo.NgSectionInfo{Hardware: "hw", OS: "os", Application: "app", Comment: ""}

func main() {
	r := report.New("C14", "fault_enumeration")
	if os.Getenv("VERIF_REPLAY") != "" {
		fmt.Println("replay: the replay file names the file family and description; re-run the check to reproduce (about a minute)")
		os.Exit(0)
	}
	c := &ctx{r: r, tmp: "/dev/shm"}
	if _, err := os.Stat(c.tmp); err != nil {
		c.tmp = os.TempDir()
	}
	var jobs []func()
	add := func(f *file, err error, lib bool) {
		if err != nil {
			r.Violation("c14|writer-error", err.Error(), 0, nil)
			return
		}
		jobs = append(jobs, func() { c.check(f, lib) })
	}
	// F1: classic pcap, micro and nano: sequences over (data length x extra wire length), timestamps by position
	lens := []int{0, 1, 2, 3, 4, 5, 8, 1500}
	extra := []int{0, 1, 3}
	type pv struct{ n, k int }
	var pvs []pv
	for _, n := range lens {
		for _, k := range extra {
			pvs = append(pvs, pv{n, k})
		}
	}
	mkp := func(v pv, pos, tsi int) pkt {
		d := payload(v.n, byte(17*(pos+1)))
		return pkt{data: d, ci: gopacket.CaptureInfo{Timestamp: stamps[tsi%len(stamps)], CaptureLength: v.n, Length: v.n + v.k}}
	}
	maxSeq := 3
	if !r.Thorough() {
		maxSeq = 2
	}
	for _, nano := range []bool{false, true} {
		for _, a := range pvs {
			for ts := range stamps {
				f, err := writePcap(nano, []pkt{mkp(a, 0, ts)}, fmt.Sprintf("nano=%v packets=[len %d+%d ts %v]", nano, a.n, a.k, stamps[ts].UTC()))
				add(f, err, true)
			}
			for _, b := range pvs {
				f, err := writePcap(nano, []pkt{mkp(a, 0, 0), mkp(b, 1, 2)}, fmt.Sprintf("nano=%v packets=[len %d+%d, len %d+%d]", nano, a.n, a.k, b.n, b.k))
				add(f, err, a.n < 1500 && b.n < 1500)
				if maxSeq >= 3 && a.n < 1500 && b.n < 1500 {
					for _, cc := range pvs {
						if cc.n >= 1500 || cc.k != 0 {
							continue
						}
						f, err := writePcap(nano, []pkt{mkp(a, 0, 1), mkp(b, 1, 3), mkp(cc, 2, 4)}, fmt.Sprintf("nano=%v packets=[len %d+%d, len %d+%d, len %d+%d]", nano, a.n, a.k, b.n, b.k, cc.n, cc.k))
						add(f, err, false)
					}
				}
			}
		}
	}
	// F1b: every data length up to maxLen, alone and followed by a second packet, by each writer
	maxLen := 600
	if r.Thorough() {
		maxLen = 2100
	}
	for n := 0; n <= maxLen; n++ {
		for kind := 0; kind < 3; kind++ {
			for second := 0; second < 2; second++ {
				pk := []pkt{{data: payload(n, byte(n)), ci: gopacket.CaptureInfo{Timestamp: stamps[n%len(stamps)], CaptureLength: n, Length: n + n%3}}}
				if second == 1 {
					pk = append(pk, pkt{data: payload(3, 7), ci: gopacket.CaptureInfo{Timestamp: stamps[(n+1)%len(stamps)], CaptureLength: 3, Length: 3}})
				}
				desc := fmt.Sprintf("every data length: %s packets=[len %d+%d%s]", [...]string{"pcap micro", "pcap nano", "pcapng"}[kind], n, n%3, [...]string{"", ", len 3+0"}[second])
				var f *file
				var err error
				if kind == 2 {
					f, err = writeNg([]pcapgo.NgInterface{base14}, sbase14, pk, desc)
				} else {
					f, err = writePcap(kind == 1, pk, desc)
				}
				add(f, err, second == 1 && (n < 64 || n%16 == 0))
			}
		}
	}
	// F2: pcapng, one interface: every string field at every length (others fixed), offsets, snap lengths
	base := base14
	sbase := sbase14
	one := func(ts int) []pkt {
		return []pkt{{data: payload(5, 9), ci: gopacket.CaptureInfo{Timestamp: stamps[ts%len(stamps)], CaptureLength: 5, Length: 8}}}
	}
	slens := []int{0, 1, 3, 4, 5}
	for field := 0; field < 5; field++ {
		for _, n := range slens {
			in := base
			switch field {
			case 0:
				in.Name = str(n)
			case 1:
				in.Comment = str(n)
			case 2:
				in.Description = str(n)
			case 3:
				in.Filter = str(n)
			case 4:
				in.OS = str(n)
			}
			for _, off := range []uint64{0, 5} {
				in.TimestampOffset = off
				for _, snap := range []uint32{0, 65535} {
					in.SnapLength = snap
					f, err := writeNg([]pcapgo.NgInterface{in}, sbase, one(int(off)+field), fmt.Sprintf("interface{name %q comment %q desc %q filter %q os %q tsoffset %d snaplen %d}", in.Name, in.Comment, in.Description, in.Filter, in.OS, off, snap))
					add(f, err, true)
				}
			}
		}
	}
	for field := 0; field < 4; field++ {
		for _, n := range slens {
			s := sbase
			switch field {
			case 0:
				s.Hardware = str(n)
			case 1:
				s.OS = str(n)
			case 2:
				s.Application = str(n)
			case 3:
				s.Comment = str(n)
			}
			f, err := writeNg([]pcapgo.NgInterface{base}, s, one(field), fmt.Sprintf("section{hw %q os %q app %q comment %q}", s.Hardware, s.OS, s.Application, s.Comment))
			add(f, err, true)
		}
	}
	// F2b: very long option strings: the reader's 1024-byte scratch buffer boundary and the 16-bit
	// option length limit (a section comment, an interface description, a packet comment)
	for _, n := range []int{1023, 1024, 1025, 65531, 65532, 65533, 65534, 65535} {
		for field := 0; field < 3; field++ {
			in, sec := base, sbase
			pk := one(field)
			switch field {
			case 0:
				sec.Comment = str(n)
			case 1:
				in.Description = str(n)
			case 2:
				pk[0].opts = pcapgo.NgPacketOptions{Comments: []string{str(n)}}
			}
			f, err := writeNg([]pcapgo.NgInterface{in}, sec, pk, fmt.Sprintf("long option string: %d bytes in %s", n, [...]string{"the section comment", "the interface description", "a packet comment"}[field]))
			add(f, err, n < 2000)
		}
	}
	// F3: per-packet options, each dimension over its domain, and all pairs of (comments, hashes, verdicts)
	u64 := func(v uint64) *uint64 { return &v }
	u32 := func(v uint32) *uint32 { return &v }
	commentSets := [][]string{nil, {""}, {"a"}, {"abc", "de"}, {"abcd"}, {"", "x"}, {"abcde", ""}}
	hashSets := [][]pcapgo.NgEpbHash{nil, {{Algorithm: 2, Hash: []byte{}}}, {{Algorithm: 2, Hash: []byte{1}}}, {{Algorithm: 3, Hash: []byte{1, 2, 3}}}, {{Algorithm: 4, Hash: []byte{1, 2, 3, 4}}}, {{Algorithm: 3, Hash: []byte{9, 8, 7, 6}}, {Algorithm: 2, Hash: []byte{5}}}}
	verdictSets := [][]pcapgo.NgEpbVerdict{nil, {{Type: 0, Data: []byte{}}}, {{Type: 1, Data: []byte{7}}}, {{Type: 2, Data: []byte{1, 2, 3}}}, {{Type: 1, Data: []byte{1, 2, 3, 4}}, {Type: 2, Data: []byte{5, 6}}}}
	for _, cs := range commentSets {
		for _, hs := range hashSets {
			for _, vs := range verdictSets {
				o := pcapgo.NgPacketOptions{Comments: cs, Hashes: hs, Verdicts: vs}
				for variant := 0; variant < 3; variant++ {
					oo := o
					switch variant {
					case 1:
						oo.Flags = &pcapgo.NgEpbFlags{Direction: pcapgo.NgEpbFlagDirectionInbound, Reception: pcapgo.NgEpbFlagReceptionTypeMulticast, FCSLen: pcapgo.NewNgEpbFlagFCSLength(4), LinkLayerErr: pcapgo.NgEpbFlagLinkLayerDependentErrorCRC}
						oo.DropCount, oo.PacketID, oo.Queue = u64(0), u64(1<<63), u32(7)
					case 2:
						oo.DropCount, oo.Queue = u64(1<<64-1), u32(1<<32-1)
					}
					if variant > 0 && len(cs)+len(hs)+len(vs) > 3 {
						continue
					}
					pk := []pkt{{data: payload(3, 1), ci: gopacket.CaptureInfo{Timestamp: stamps[1], CaptureLength: 3, Length: 3}, opts: oo},
						{data: payload(4, 2), ci: gopacket.CaptureInfo{Timestamp: stamps[3], CaptureLength: 4, Length: 9}, opts: pcapgo.NgPacketOptions{Comments: []string{"second"}}}}
					f, err := writeNg([]pcapgo.NgInterface{base}, sbase, pk, fmt.Sprintf("packet options {%s}", normOpts(oo)))
					add(f, err, len(hs) == 0 && len(vs) == 0)
				}
			}
		}
	}
	// F4: several interfaces (same and different link types), packets on each, data lengths of every padding residue
	lts := []layers.LinkType{layers.LinkTypeEthernet, layers.LinkTypeRaw, layers.LinkTypeNull}
	for ni := 1; ni <= 3; ni++ {
		for _, mixed := range []bool{false, true} {
			var ins []pcapgo.NgInterface
			for i := 0; i < ni; i++ {
				in := base
				in.Name = fmt.Sprintf("if%d", i)
				if mixed {
					in.LinkType = lts[i]
				}
				ins = append(ins, in)
			}
			for _, n := range lens {
				var pk []pkt
				for i := 0; i < ni; i++ {
					pk = append(pk, pkt{data: payload(n+i, byte(i)), ci: gopacket.CaptureInfo{Timestamp: stamps[(i+n)%len(stamps)], CaptureLength: n + i, Length: n + i + 2, InterfaceIndex: ni - 1 - i}})
				}
				f, err := writeNg(ins, sbase, pk, fmt.Sprintf("%d interfaces mixed=%v data length %d..", ni, mixed, n))
				add(f, err, !mixed && n < 1500)
			}
		}
	}
	// F5: packets around and above 64 KiB (the readers grow their buffers in steps) after and before
	// packets of other sizes, by each writer
	bigs := []int{100, 1000, 65535, 65536, 65537, 70000, 140000}
	for kind := 0; kind < 3; kind++ {
		for _, a := range bigs {
			for _, b := range bigs {
				if a < 65535 && b < 65535 {
					continue
				}
				pk := []pkt{{data: payload(a, 3), ci: gopacket.CaptureInfo{Timestamp: stamps[0], CaptureLength: a, Length: a}},
					{data: payload(b, 5), ci: gopacket.CaptureInfo{Timestamp: stamps[1], CaptureLength: b, Length: b + 1}},
					{data: payload(100, 7), ci: gopacket.CaptureInfo{Timestamp: stamps[2], CaptureLength: 100, Length: 100}}}
				desc := fmt.Sprintf("large packets: %s packets=[len %d, len %d, len 100]", [...]string{"pcap micro", "pcap nano", "pcapng"}[kind], a, b)
				var f *file
				var err error
				if kind == 2 {
					f, err = writeNg([]pcapgo.NgInterface{base14}, sbase14, pk, desc)
				} else {
					f, err = writePcapSnap(kind == 1, pk, desc, 262144)
				}
				add(f, err, false)
			}
		}
	}
	// F6: files of several sections (a capture appended to an existing file): every sequence of 2 and
	// 3 sections out of three kinds that differ in the number of interfaces and their if_tsoffset
	mkSection := func(kind, pos int) (*file, error) {
		in0, in1 := base14, base14
		in1.Name = "second"
		var ins []pcapgo.NgInterface
		switch kind {
		case 0:
			ins = []pcapgo.NgInterface{in0}
		case 1:
			in0.TimestampOffset = 5
			ins = []pcapgo.NgInterface{in0}
		case 2:
			in1.TimestampOffset = 7
			ins = []pcapgo.NgInterface{in0, in1}
		}
		sec := sbase14
		sec.Comment = fmt.Sprintf("section %d", pos)
		var pk []pkt
		for i := range ins {
			n := 3 + pos + i
			pk = append(pk, pkt{data: payload(n, byte(16*pos+i)), ci: gopacket.CaptureInfo{Timestamp: stamps[(pos+i)%3], CaptureLength: n, Length: n + 1, InterfaceIndex: len(ins) - 1 - i}})
		}
		return writeNg(ins, sec, pk, "")
	}
	var secSeqs [][]int
	for a := 0; a < 3; a++ {
		for b := 0; b < 3; b++ {
			secSeqs = append(secSeqs, []int{a, b})
			for cc := 0; cc < 3; cc++ {
				secSeqs = append(secSeqs, []int{a, b, cc})
			}
		}
	}
	for _, sq := range secSeqs {
		var parts []*file
		var err error
		for pos, k := range sq {
			var p *file
			if p, err = mkSection(k, pos); err != nil {
				break
			}
			parts = append(parts, p)
		}
		if err != nil {
			add(nil, err, false)
			continue
		}
		names := [...]string{"one interface", "one interface with if_tsoffset 5", "two interfaces, the second with if_tsoffset 7"}
		d := "sections:"
		for _, k := range sq {
			d += " [" + names[k] + "]"
		}
		add(joinNg(d, parts...), nil, true)
	}
	// run
	var wg sync.WaitGroup
	ch := make(chan func(), 64)
	for w := 0; w < runtime.NumCPU(); w++ {
		wg.Add(1)
		go func() {
			defer wg.Done()
			for j := range ch {
				j()
			}
		}()
	}
	for _, j := range jobs {
		if r.Expired() {
			break
		}
		ch <- j
	}
	close(ch)
	wg.Wait()
	n := 0
	c.outc.Range(func(k, v any) bool { n++; return true })
	r.Coverage["evaluations"] = c.cuts + c.reads
	r.Coverage["distinct_nontrivial"] = n
	r.Coverage["files_written"] = c.files
	r.Coverage["whole_file_reads"] = c.reads
	r.Coverage["truncated_reads"] = c.cuts
	r.Coverage["files_compared_with_libpcap"] = c.lib
	r.Coverage["samples"] = []any{map[string]any{"kind": "pcap-nano", "packets": "[len 3+1 ts 1s+999999999ns, len 1500+0]", "cut_offsets": "every byte offset of the file"}, map[string]any{"kind": "pcapng", "file": "packet options {comments=[\"\" \"x\"] hash=2:01}", "cut_offsets": "every byte offset"}}
	r.Coverage["rule"] = "files: classic pcap (micro/nano) with every 1-packet file over 8 data lengths x 3 wire-length surpluses x 5 timestamps and every 2-packet [thorough 3-packet] sequence; pcapng with every interface string field (name, comment, description, filter, OS) at lengths 0,1,3,4,5 x TimestampOffset {0,5} x snap length {0,65535}, every section string at those lengths, the full product of 7 comment lists x 6 hash lists x 5 verdict lists (plus flags/drop count/packet id/queue variants), 1-3 interfaces with equal or mixed link types and data lengths of every padding residue. Each file is read back with every read call (copying, zero-copy, with options, alternating) and must return the same packets, lengths, timestamps (to the file's resolution), interface/link type, options, interface and section descriptions; then for EVERY byte offset the prefix is read and must yield exactly the packets whose record lies wholly inside it, unaltered, then io.EOF/io.ErrUnexpectedEOF; libpcap (pcap.OpenOffline) must return the same packets for the files it opens. distinct_nontrivial = distinct (format, packet count, size class) of files."
	r.Assumptions = []string{"libpcap installed in the image is the reference for the libpcap clause; pcapng files libpcap refuses to open are not compared", "snap length 65535 for classic pcap (the reader refuses packets longer than the snap length by design)"}
	r.Finish()
}
