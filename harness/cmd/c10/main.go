// C10: tcpassembly delivers TCP bytes in order, exactly once, gaps announced.
package main

import (
	"fmt"
	"os"
	"runtime"
	"runtime/debug"
	"sync"
	"time"

	"github.com/gopacket/gopacket"
	"github.com/gopacket/gopacket/layers"
	"github.com/gopacket/gopacket/tcpassembly"

	"verif/engine/report"
	"verif/engine/statex"
	tm "verif/engine/tcpmodel"
)

type config struct {
	isn            uint32
	perConn, total int
}

func (c config) String() string {
	return fmt.Sprintf("isn=%d maxPerConn=%d maxTotal=%d", c.isn, c.perConn, c.total)
}

type hist struct {
	cur   tm.Event
	isSeg bool
	dir   *tm.Dir
	insts []*tm.Inst
	ctx   tm.StepCtx
	viol  string
	what  string
	step  int
}

type stream struct {
	h    *harness
	hs   *hist
	inst *tm.Inst
}

func (s *stream) Reassembled(rs []tcpassembly.Reassembly) {
	if s.hs != s.h.cur {
		s.h.stale = true // callback for a stream of an earlier history: instance was not clean
		return
	}
	for _, r := range rs {
		if s.inst != s.hs.insts[len(s.hs.insts)-1] {
			continue // not the live instance (cannot happen on a correct tree; C11 checks callbacks after completion)
		}
		k, w := s.inst.Deliver(s.hs.dir, tm.Delivery{Skip: r.Skip, Bytes: r.Bytes, Start: r.Start, End: r.End}, s.hs.ctx)
		if k != "" && s.hs.viol == "" {
			s.hs.viol, s.hs.what = k, fmt.Sprintf("step %d: %s", s.hs.step, w)
		}
	}
}
func (s *stream) ReassemblyComplete() { s.inst.Completed++ }

type harness struct {
	t0    time.Time // start time of the current history: time never goes backwards on a recycled instance
	pool  *tcpassembly.StreamPool
	asm   *tcpassembly.Assembler
	cur   *hist
	ctr   uint32
	stale bool
	tcp   layers.TCP
	n     int
}

func (h *harness) New(a, b gopacket.Flow) tcpassembly.Stream {
	// a new connection instance is a new stream: what arrived for an earlier, closed
	// instance does not count for this one
	in := &tm.Inst{}
	h.cur.insts = append(h.cur.insts, in)
	h.cur.dir = tm.NewDir(h.n)
	if h.cur.isSeg {
		h.cur.dir.Arrive(h.cur.cur)
	}
	return &stream{h: h, hs: h.cur, inst: in}
}

func (h *harness) reset() {
	h.pool = tcpassembly.NewStreamPool(h)
	h.asm = tcpassembly.NewAssembler(h.pool)
	h.stale = false
}

var epoch = time.Unix(1_000_000, 0)

func (h *harness) run(cfg config, alpha []tm.Event, seq []int) (hs *hist) {
	hs = &hist{dir: tm.NewDir(h.n)}
	h.cur = hs
	if h.t0.IsZero() {
		h.t0 = epoch
	}
	h.t0 = h.t0.Add(time.Duration(len(seq)+3) * time.Second)
	t0 := h.t0
	h.asm.MaxBufferedPagesPerConnection = cfg.perConn
	h.asm.MaxBufferedPagesTotal = cfg.total
	h.ctr++
	var ip [4]byte
	ip[0], ip[1], ip[2], ip[3] = byte(h.ctr>>24), byte(h.ctr>>16), byte(h.ctr>>8), byte(h.ctr)
	netFlow := gopacket.NewFlow(layers.EndpointIPv4, ip[:], []byte{10, 0, 0, 1})
	limited := cfg.perConn > 0 || cfg.total > 0
	defer func() {
		if r := recover(); r != nil {
			k, site := report.PanicKey(r, debug.Stack())
			hs.viol, hs.what = k, fmt.Sprintf("panic %v at %s (step %d)", r, site, hs.step)
			h.reset()
		}
	}()
	for i, li := range seq {
		e := alpha[li]
		hs.step = i
		ts := t0.Add(time.Duration(i) * time.Second)
		hs.ctx = tm.StepCtx{FlushStep: e.K == tm.FLUSHOLD, Limited: limited}
		hs.cur, hs.isSeg = e, e.K != tm.FLUSHOLD
		if e.K == tm.FLUSHOLD {
			h.asm.FlushOlderThan(ts.Add(time.Second))
			continue
		}
		hs.dir.Arrive(e)
		sg := e.Segment(cfg.isn, h.n)
		h.tcp = layers.TCP{SrcPort: 1, DstPort: 2, Seq: sg.Seq, SYN: sg.SYN, FIN: sg.FIN, RST: sg.RST}
		h.tcp.Payload = sg.Payload
		h.tcp.SetInternalPortsForTesting()
		h.asm.AssembleWithTimestamp(netFlow, &h.tcp, ts)
		if len(hs.insts) > 0 && hs.viol == "" {
			if k, w := hs.insts[len(hs.insts)-1].NotHeldBack(hs.dir); k != "" {
				hs.viol, hs.what = k, fmt.Sprintf("after step %d (%v): %s", i, e, w)
			}
		}
	}
	hs.step = len(seq)
	hs.isSeg = false
	hs.ctx = tm.StepCtx{FlushStep: true, Limited: limited}
	h.asm.FlushAll()
	if len(hs.insts) > 0 && hs.viol == "" {
		if k, w := hs.insts[len(hs.insts)-1].AllAccounted(hs.dir); k != "" {
			hs.viol, hs.what = k, "after FlushAll: "+w
		}
	}
	if tcpassembly.VerifPagesUsed(h.asm) != 0 || tcpassembly.VerifConnCount(h.pool) != 0 || h.stale {
		h.reset() // leaks are C11's business; here the recycled instance is simply replaced
	}
	return hs
}

// cutsOf is set while a cut-point family is explored (nil: the full alphabet of a short stream)
var cutsOf []int

// famName is the family being explored (recorded in replay files)
var famName string

const budgetN = 4300

func budgetDepth(thorough bool) int {
	if thorough {
		return 6
	}
	return 5
}

// budgetAlphabet: [0,50) fills the gap, [50,100) is a short run behind it, [150,4050) spans three
// pages and [150,2150) two (neither contiguous with the short run), [4200,4300) and [2200,2300) lie further out.
func budgetAlphabet() []tm.Event {
	d := func(a, b int) tm.Event { return tm.Event{K: tm.DATA, A: a, B: b} }
	return []tm.Event{{K: tm.SYN}, d(0, 50), d(50, 100), d(100, 150), d(150, 2150), d(150, 4050), d(2200, 2300), d(4200, 4300),
		{K: tm.DATA, A: 4200, B: 4300, Fin: true}, {K: tm.FLUSHOLD}}
}

func describe(cfg config, alpha []tm.Event, seq []int, n int) map[string]any {
	var ev []string
	for _, i := range seq {
		ev = append(ev, alpha[i].String())
	}
	return map[string]any{"n": n, "cuts": cutsOf, "family": famName, "isn": cfg.isn, "max_pages_per_conn": cfg.perConn, "max_pages_total": cfg.total, "events": ev, "seq": append([]int(nil), seq...)}
}

func main() {
	r := report.New("C10", "model_checking")
	n, depth := 4, 5
	limits := [][2]int{{0, 0}, {1, 0}, {2, 0}, {0, 2}, {0, 3}}
	if r.Thorough() {
		depth = 6
		limits = append(limits, [2]int{1, 2}, [2]int{2, 2})
	}
	alpha := tm.Alphabet(n, true, false)
	if rp := os.Getenv("VERIF_REPLAY"); rp != "" {
		var f struct {
			Replay struct {
				N               int    `json:"n"`
				Isn             uint32 `json:"isn"`
				PerConn, Total  int
				MaxPagesPerConn int   `json:"max_pages_per_conn"`
				MaxPagesTotal   int   `json:"max_pages_total"`
				Seq             []int `json:"seq"`
				Cuts            []int `json:"cuts"`
				Family          string   `json:"family"`
				Isns            []uint32 `json:"isns"`
			} `json:"replay"`
		}
		report.ReadJSON(rp, &f)
		if f.Replay.Family == "multiconn" {
			h := &mcHarness{}
			h.reset()
			cfg := mcConfig{perConn: f.Replay.MaxPagesPerConn, total: f.Replay.MaxPagesTotal}
			copy(cfg.isn[:], f.Replay.Isns)
			ma := mcAlphabet(r.Thorough())
			fmt.Println("replaying", mcDescribe(cfg, ma, f.Replay.Seq))
			hs := h.run(cfg, ma, f.Replay.Seq)
			if hs.viol != "" {
				fmt.Println("REPRODUCED", hs.viol, hs.what)
				os.Exit(1)
			}
			fmt.Println("no violation reproduced")
			os.Exit(0)
		}
		if len(f.Replay.Cuts) > 0 {
			alpha = tm.AlphabetCuts(f.Replay.Cuts, true, false)
			cutsOf = f.Replay.Cuts
		}
		if f.Replay.Family == "budget" {
			alpha = budgetAlphabet()
			famName = "budget"
		}
		h := &harness{n: f.Replay.N}
		h.reset()
		cfg := config{f.Replay.Isn, f.Replay.MaxPagesPerConn, f.Replay.MaxPagesTotal}
		fmt.Println("replaying", describe(cfg, alpha, f.Replay.Seq, f.Replay.N))
		hs := h.run(cfg, alpha, f.Replay.Seq)
		if hs.viol != "" {
			fmt.Println("REPRODUCED", hs.viol, hs.what)
			os.Exit(1)
		}
		fmt.Println("no violation reproduced")
		os.Exit(0)
	}
	var curCfg config
	var hangLocals []*report.Local
	workers := runtime.NumCPU()
	var total, transitions int64
	var mu sync.Mutex
	outcomes := map[string]struct{}{}
	var samples []any
	locals := make([]*report.Local, workers)
	for i := range locals {
		locals[i] = report.NewLocal()
	}
	hangLocals = locals
	deliveries := make([]int64, workers)
	strict := make([]int64, workers)
	type family struct {
		name   string
		cuts   []int // nil: every segment of an n-byte stream
		n      int
		isns   []uint32
		limits [][2]int
		depth  int
		alpha  []tm.Event // non-nil: a hand-picked alphabet instead of every segment between cut points
	}
	// multi-page family: segments spanning 2 [3] assembler pages (1900 bytes each), with room
	// for a gap in front, a queued segment behind and a segment in between
	mpCuts := []int{0, 100, 2100, 2200, 2300}
	mpIsns := []uint32{1000, uint32(uint64(1)<<32 - 1200)}
	mpLimits := [][2]int{{0, 0}, {3, 0}, {0, 1}, {0, 2}} // total budgets that a multi-page segment exhausts at once and that stay exhausted after one page was forced out
	if r.Thorough() {
		mpCuts = []int{0, 100, 1100, 2100, 4100, 4200, 4300}
		mpIsns = append(mpIsns, 1<<31-1200)
		mpLimits = append(mpLimits, [2]int{2, 0}, [2]int{0, 4})
	}
	families := []family{
		{"short", nil, n, tm.ISNs(n), limits, depth, nil},
		{"multipage", mpCuts, mpCuts[len(mpCuts)-1], mpIsns, mpLimits, 5, nil},
		// budget family: a short run queued behind a gap, then a segment of several pages that is
		// not contiguous with it, then more out-of-order data - under total budgets that are used
		// up at once and stay used up after the oldest page was forced out
		{"budget", nil, budgetN, mpIsns, [][2]int{{0, 1}, {0, 2}, {0, 3}, {2, 2}}, budgetDepth(r.Thorough()), budgetAlphabet()},
	}
	var famNotes []string
	for _, fam := range families {
		fam := fam
		n := fam.n
		alpha := alpha
		cutsOf = fam.cuts
		if fam.cuts != nil {
			alpha = tm.AlphabetCuts(fam.cuts, true, false)
		}
		famName = fam.name
		if fam.alpha != nil {
			alpha = fam.alpha
		}
		famNotes = append(famNotes, fmt.Sprintf("%s: stream of %d bytes, cut points %v, %d letters %v, histories of %d events, ISNs %v, page limits %v", fam.name, n, fam.cuts, len(alpha), alpha, fam.depth, fam.isns, fam.limits))
		hs := make([]*harness, workers)
		for i := range hs {
			hs[i] = &harness{n: n}
			hs[i].reset()
		}
		statex.OnHang = func(seq []int) {
			r.Violation("hang|a history does not terminate", fmt.Sprintf("no progress for %v on one history; %s", statex.HangAfter, curCfg), 0, describe(curCfg, alpha, seq, n))
			for _, l := range hangLocals {
				r.MergeLocal(l)
			}
			r.Exhaustive = false
			r.Coverage["states"], r.Coverage["transitions"], r.Coverage["traces_validated_against_impl"] = 1, 1, 0
			r.Coverage["samples"] = []any{describe(curCfg, alpha, seq, n)}
			r.Finish()
		}
		for _, isn := range fam.isns {
			for _, lim := range fam.limits {
				cfg := config{isn, lim[0], lim[1]}
				curCfg = cfg
				local := make([]map[string]struct{}, workers)
				for i := range local {
					local[i] = map[string]struct{}{}
				}
				cnt, complete := statex.Sequences(len(alpha), fam.depth, workers, r.Expired, func(w int, seq []int) {
					h := hs[w].run(cfg, alpha, seq)
					if len(h.insts) > 0 {
						in := h.insts[0]
						deliveries[w] += int64(in.Deliveries)
						if in.Strict {
							strict[w]++
						}
						local[w][fmt.Sprintf("%s/%d/%d/%v/%v/%d", fam.name, in.Pos, in.Deliveries, in.Strict, in.Ended, len(h.insts))] = struct{}{}
					}
					if h.viol != "" {
						key := fmt.Sprintf("c10|%s|isn=%s|limit=%v", h.viol, tm.ISNClass(cfg.isn, n), lim[0]+lim[1] > 0)
						if fam.name != "short" {
							key += "|" + fam.name
						}
						locals[w].Add(key, int64(len(seq)), func() (string, any) {
							d := describe(cfg, alpha, seq, n)
							return h.what + "; " + cfg.String() + fmt.Sprintf("; events %v", d["events"]), d
						})
					}
				})
				total += cnt
				transitions += cnt * int64(fam.depth+1)
				if !complete {
					r.Exhaustive = false
				}
				mu.Lock()
				for _, l := range local {
					for k := range l {
						outcomes[k] = struct{}{}
					}
				}
				mu.Unlock()
			}
			k := fam.depth
			samples = append(samples, describe(config{isn, 2, 0}, alpha, []int{0, 5, 2, 9, 7, 1}[:k], n))
		}
	}
	cutsOf = nil
	famName = ""
	// multi-connection family: three connections through one assembler in every order
	{
		ma := mcAlphabet(r.Thorough())
		mdepth := 7
		mhs := make([]*mcHarness, workers)
		for i := range mhs {
			mhs[i] = &mcHarness{}
			mhs[i].reset()
		}
		var mcCfg mcConfig
		statex.OnHang = func(seq []int) {
			r.Violation("hang|a history does not terminate", fmt.Sprintf("no progress for %v on one history; %s", statex.HangAfter, mcCfg), 0, mcDescribe(mcCfg, ma, seq))
			for _, l := range hangLocals {
				r.MergeLocal(l)
			}
			r.Exhaustive = false
			r.Coverage["states"], r.Coverage["transitions"], r.Coverage["traces_validated_against_impl"] = 1, 1, 0
			r.Coverage["samples"] = []any{mcDescribe(mcCfg, ma, seq)}
			r.Finish()
		}
		ran := make([]int64, workers)
		for _, cfg := range mcConfigs(r.Thorough()) {
			cfg := cfg
			mcCfg = cfg
			local := make([]map[string]struct{}, workers)
			for i := range local {
				local[i] = map[string]struct{}{}
			}
			_, complete := statex.Sequences(len(ma), mdepth, workers, r.Expired, func(w int, seq []int) {
				if !mcCanonical(ma, seq) {
					return
				}
				ran[w]++
				h := mhs[w].run(cfg, ma, seq)
				sig := "multiconn"
				for c := range h.conns {
					if len(h.conns[c].insts) > 0 {
						in := h.conns[c].insts[0]
						deliveries[w] += int64(in.Deliveries)
						if in.Strict {
							strict[w]++
						}
						sig += fmt.Sprintf("/%d.%d.%v.%v.%d", in.Pos, in.Deliveries, in.Strict, in.Ended, len(h.conns[c].insts))
					}
				}
				local[w][sig] = struct{}{}
				if h.viol != "" {
					key := fmt.Sprintf("c10|%s|multiconn|limit=%v", h.viol, cfg.perConn+cfg.total > 0)
					locals[w].Add(key, int64(len(seq)), func() (string, any) {
						d := mcDescribe(cfg, ma, seq)
						return h.what + "; " + cfg.String() + fmt.Sprintf("; events %v", d["events"]), d
					})
				}
			})
			if !complete {
				r.Exhaustive = false
			}
			mu.Lock()
			for _, l := range local {
				for k := range l {
					outcomes[k] = struct{}{}
				}
			}
			mu.Unlock()
		}
		var mcTotal int64
		for _, x := range ran {
			mcTotal += x
		}
		total += mcTotal
		transitions += mcTotal * int64(mdepth+1)
		famNotes = append(famNotes, fmt.Sprintf("multiconn: %d connections of 4-byte streams through one assembler, per-connection letters %v, every history of %d events in which the connections are introduced in ascending order (%d histories), ISN assignments and page limits %v; each connection carries different bytes at equal offsets; the order oracle is applied to every connection after every event", mcConns, mcLetters(r.Thorough()), mdepth, mcTotal, mcConfigs(r.Thorough())))
		samples = append(samples, mcDescribe(mcConfigs(false)[0], ma, []int{0, 4, 5, 7, 1, 8, 9}))
	}
	for _, l := range locals {
		r.MergeLocal(l)
	}
	var dsum, ssum int64
	for i := range deliveries {
		dsum += deliveries[i]
		ssum += strict[i]
	}
	r.Coverage["states"] = total
	r.Coverage["transitions"] = transitions
	r.Coverage["traces_validated_against_impl"] = total
	r.Coverage["histories"] = total
	r.Coverage["history_length"] = depth
	r.Coverage["stream_bytes"] = n
	r.Coverage["families"] = famNotes
	r.Coverage["deliveries_checked"] = dsum
	r.Coverage["histories_with_strict_first_instance"] = ssum
	r.Coverage["distinct_outcomes"] = len(outcomes)
	r.Coverage["samples"] = samples
	r.Coverage["explanation"] = "stateless search: every history (sequence of segment/flush events of the stated length over the alphabet, followed by FlushAll) is executed on the real Assembler (recycled instance, fresh flow key, instance replaced if not clean) for every ISN x page-limit configuration; each hand-over is checked against the sender model (distinct bytes behind the ISN): exact bytes at pos+skip, skip only over bytes that never arrived and only under a flush or page limit, nothing held back behind no gap, everything accounted for after FlushAll. states = histories executed, transitions = events applied."
	r.Assumptions = []string{"oracle applies to stream instances whose SYN was processed before any hand-over (the statement's 'direction whose SYN was seen')", "stream of 4 distinct bytes; histories of the stated length; all shorter histories are prefixes checked on the way"}
	r.Finish()
}
