// Multi-connection family of C10: three connections fed through ONE assembler in
// every order. The per-direction guarantee must hold for each of them although
// connection objects and pages are recycled between them (a connection closed with
// a page still queued, its object and its page handed to other connections).
package main

import (
	"fmt"
	"runtime/debug"
	"time"

	"github.com/gopacket/gopacket"
	"github.com/gopacket/gopacket/layers"
	"github.com/gopacket/gopacket/tcpassembly"

	"verif/engine/report"
	tm "verif/engine/tcpmodel"
)

const mcConns = 3

// per-connection letters (stream of 4 bytes): what a connection can be sent
func mcLetters(thorough bool) []tm.Event {
	l := []tm.Event{
		{K: tm.SYN},
		{K: tm.DATA, A: 2, B: 4}, // out of order while [0,2) is missing
		{K: tm.DATA, A: 0, B: 2},
		{K: tm.RSTAT, A: 0}, // in order right after the SYN: closes with whatever is queued
	}
	if thorough {
		l = append(l, tm.Event{K: tm.DATA, A: 2, B: 4, Fin: true})
	}
	return l
}

type mcEvent struct {
	c int
	e tm.Event
}

func (m mcEvent) String() string { return fmt.Sprintf("K%d:%v", m.c, m.e) }

func mcAlphabet(thorough bool) []mcEvent {
	var a []mcEvent
	for c := 0; c < mcConns; c++ {
		for _, e := range mcLetters(thorough) {
			a = append(a, mcEvent{c, e})
		}
	}
	return a
}

// mcCanonical: connections are introduced in ascending order (the three keys are
// interchangeable up to their ISN, and the ISN assignments are enumerated separately).
func mcCanonical(alpha []mcEvent, seq []int) bool {
	next := 0
	for _, i := range seq {
		c := alpha[i].c
		if c > next {
			return false
		}
		if c == next {
			next++
		}
	}
	return true
}

type mcConn struct {
	dir   *tm.Dir
	insts []*tm.Inst
}

type mcHist struct {
	conns [mcConns]mcConn
	cur   mcEvent
	isSeg bool
	ctx   tm.StepCtx
	viol  string
	what  string
	step  int
}

type mcStream struct {
	h    *mcHarness
	hs   *mcHist
	c    int
	inst *tm.Inst
	buf  []byte
}

var mcSalt = [mcConns]byte{0x00, 0x20, 0x40} // the connections carry different bytes at equal offsets

func (s *mcStream) Reassembled(rs []tcpassembly.Reassembly) {
	if s.hs != s.h.cur {
		s.h.stale = true
		return
	}
	cs := &s.hs.conns[s.c]
	for _, r := range rs {
		if s.inst != cs.insts[len(cs.insts)-1] {
			continue
		}
		s.buf = append(s.buf[:0], r.Bytes...)
		for i := range s.buf {
			s.buf[i] ^= mcSalt[s.c]
		}
		k, w := s.inst.Deliver(cs.dir, tm.Delivery{Skip: r.Skip, Bytes: s.buf, Start: r.Start, End: r.End}, s.hs.ctx)
		if k != "" && s.hs.viol == "" {
			s.hs.viol, s.hs.what = k, fmt.Sprintf("step %d, connection K%d: %s", s.hs.step, s.c, w)
		}
	}
}
func (s *mcStream) ReassemblyComplete() { s.inst.Completed++ }

type mcHarness struct {
	t0    time.Time
	pool  *tcpassembly.StreamPool
	asm   *tcpassembly.Assembler
	cur   *mcHist
	ctr   uint32
	stale bool
	tcp   layers.TCP
}

func (h *mcHarness) New(a, b gopacket.Flow) tcpassembly.Stream {
	c := int(h.tcp.SrcPort) - 10
	cs := &h.cur.conns[c]
	in := &tm.Inst{}
	cs.insts = append(cs.insts, in)
	cs.dir = tm.NewDir(4)
	if h.cur.isSeg {
		cs.dir.Arrive(h.cur.cur.e)
	}
	return &mcStream{h: h, hs: h.cur, c: c, inst: in}
}

func (h *mcHarness) reset() {
	h.pool = tcpassembly.NewStreamPool(h)
	h.asm = tcpassembly.NewAssembler(h.pool)
	h.stale = false
}

type mcConfig struct {
	isn            [mcConns]uint32
	perConn, total int
}

func (c mcConfig) String() string {
	return fmt.Sprintf("isns=%v maxPerConn=%d maxTotal=%d", c.isn, c.perConn, c.total)
}

func (h *mcHarness) run(cfg mcConfig, alpha []mcEvent, seq []int) (hs *mcHist) {
	hs = &mcHist{}
	for c := range hs.conns {
		hs.conns[c].dir = tm.NewDir(4)
	}
	h.cur = hs
	if h.t0.IsZero() {
		h.t0 = epoch
	}
	h.t0 = h.t0.Add(time.Duration(len(seq)+3) * time.Second)
	t0 := h.t0
	h.asm.MaxBufferedPagesPerConnection = cfg.perConn
	h.asm.MaxBufferedPagesTotal = cfg.total
	h.ctr++
	var ip [4]byte
	ip[0], ip[1], ip[2], ip[3] = byte(h.ctr>>24), byte(h.ctr>>16), byte(h.ctr>>8), byte(h.ctr)
	netFlow := gopacket.NewFlow(layers.EndpointIPv4, ip[:], []byte{10, 0, 0, 2})
	limited := cfg.perConn > 0 || cfg.total > 0
	defer func() {
		if r := recover(); r != nil {
			k, site := report.PanicKey(r, debug.Stack())
			hs.viol, hs.what = k, fmt.Sprintf("panic %v at %s (step %d)", r, site, hs.step)
			h.reset()
		}
	}()
	for i, li := range seq {
		me := alpha[li]
		cs := &hs.conns[me.c]
		hs.step = i
		ts := t0.Add(time.Duration(i) * time.Second)
		// a total page limit lets a packet of one connection force data out of another
		hs.ctx = tm.StepCtx{Limited: limited}
		hs.cur, hs.isSeg = me, true
		cs.dir.Arrive(me.e)
		sg := me.e.Segment(cfg.isn[me.c], 4)
		for j := range sg.Payload {
			sg.Payload[j] ^= mcSalt[me.c]
		}
		h.tcp = layers.TCP{SrcPort: layers.TCPPort(10 + me.c), DstPort: 2, Seq: sg.Seq, SYN: sg.SYN, FIN: sg.FIN, RST: sg.RST}
		h.tcp.Payload = sg.Payload
		h.tcp.SetInternalPortsForTesting()
		h.asm.AssembleWithTimestamp(netFlow, &h.tcp, ts)
		if hs.viol == "" {
			// the packet of one connection must not hold back (or disturb) any of them
			for c := range hs.conns {
				cc := &hs.conns[c]
				if len(cc.insts) == 0 {
					continue
				}
				if k, w := cc.insts[len(cc.insts)-1].NotHeldBack(cc.dir); k != "" {
					hs.viol, hs.what = k, fmt.Sprintf("after step %d (%v), connection K%d: %s", i, me, c, w)
					break
				}
			}
		}
	}
	hs.step = len(seq)
	hs.isSeg = false
	hs.ctx = tm.StepCtx{FlushStep: true, Limited: limited}
	h.asm.FlushAll()
	if hs.viol == "" {
		for c := range hs.conns {
			cc := &hs.conns[c]
			if len(cc.insts) == 0 {
				continue
			}
			if k, w := cc.insts[len(cc.insts)-1].AllAccounted(cc.dir); k != "" {
				hs.viol, hs.what = k, fmt.Sprintf("after FlushAll, connection K%d: %s", c, w)
				break
			}
		}
	}
	if tcpassembly.VerifPagesUsed(h.asm) != 0 || tcpassembly.VerifConnCount(h.pool) != 0 || h.stale {
		h.reset()
	}
	return hs
}

func mcDescribe(cfg mcConfig, alpha []mcEvent, seq []int) map[string]any {
	var ev []string
	for _, i := range seq {
		ev = append(ev, alpha[i].String())
	}
	return map[string]any{"family": "multiconn", "isns": cfg.isn[:], "max_pages_per_conn": cfg.perConn, "max_pages_total": cfg.total, "events": ev, "seq": append([]int(nil), seq...)}
}

func mcConfigs(thorough bool) []mcConfig {
	isns := [][mcConns]uint32{{5000, 1000, 100}, {100, 1000, 5000}}
	limits := [][2]int{{0, 0}, {0, 2}}
	if thorough {
		isns = append(isns, [mcConns]uint32{1000, 5000, 100}, [mcConns]uint32{1000, 100, 5000}, [mcConns]uint32{100, 5000, 1000}, [mcConns]uint32{5000, 100, 1000}, [mcConns]uint32{7, 7, 7})
		limits = append(limits, [2]int{1, 0}, [2]int{0, 1})
	}
	var out []mcConfig
	for n, i := range isns {
		for m, l := range limits {
			if !thorough && n > 0 && m > 0 {
				continue // quick: the total budget with the first ISN assignment only
			}
			out = append(out, mcConfig{i, l[0], l[1]})
		}
	}
	return out
}
