// C13: IP defragmentation returns the original datagram exactly once, or nothing.
package main

import (
	"bytes"
	"fmt"
	"net"
	"os"
	"runtime"
	"runtime/debug"
	"sync"
	"sync/atomic"
	"time"

	"github.com/gopacket/gopacket/ip4defrag"
	"github.com/gopacket/gopacket/ip6defrag"
	"github.com/gopacket/gopacket/layers"

	"verif/engine/report"
)

const unit = 8

// byte at payload offset i of datagram id: provenance (id, offset) is visible
func pbyte(id, i int) byte { return byte(id<<6 | i&0x3f) }

type frag struct {
	id   int
	a, b int // units [a,b)
	mf   bool
}

func (f frag) String() string {
	m := ""
	if f.mf {
		m = "+MF"
	}
	return fmt.Sprintf("id%d[%d,%d)%s", f.id, f.a, f.b, m)
}

var opts = map[int][]layers.IPv4Option{
	20: nil,
	24: {{OptionType: 148, OptionLength: 4, OptionData: []byte{0, 0}}},
	40: {{OptionType: 7, OptionLength: 19, OptionData: make([]byte, 17)}, {OptionType: 1, OptionLength: 1}},
	60: {{OptionType: 68, OptionLength: 40, OptionData: make([]byte, 38)}},
}

// otherKey selects how datagram 1's key differs from datagram 0's (set by the sequential driver
// of the interleaving family only)
var otherKey int

// header modes above 100 are mixed: first*100+rest, the first fragment (offset 0) carries a
// header of `first` bytes (all options), the others one of `rest` bytes (only the copied ones)
func hdrOf(f frag, ihlBytes int) int {
	if ihlBytes > 100 {
		if f.a == 0 {
			return ihlBytes / 100
		}
		return ihlBytes % 100
	}
	return ihlBytes
}

// captureBuffer lays the fragments of the arrivals out in one shared array, the way packets decoded
// with NoCopy lie in a capture buffer: in sending order, each payload followed by 24 other bytes
// (the next packet's headers) and by spare capacity up to the end of the array.
type captureBuffer struct {
	mem, pristine []byte
}

const capGap = 24

func capPos(f frag) int { return f.id*4096 + f.a*unit + capGap*(f.a+1) }

func newCaptureBuffer(arrivals []frag) *captureBuffer {
	cb := &captureBuffer{mem: make([]byte, 2*4096)}
	for i := range cb.mem {
		cb.mem[i] = 0xAA
	}
	for _, f := range arrivals {
		if f.id > 1 || capPos(f)+(f.b-f.a)*unit > (f.id+1)*4096 {
			return nil
		}
		for i := 0; i < (f.b-f.a)*unit; i++ {
			cb.mem[capPos(f)+i] = pbyte(f.id, f.a*unit+i)
		}
	}
	cb.pristine = append([]byte(nil), cb.mem...)
	return cb
}

func (cb *captureBuffer) payload(f frag) []byte {
	return cb.mem[capPos(f) : capPos(f)+(f.b-f.a)*unit] // capacity reaches to the end of the buffer
}

func mk4(f frag, ihlBytes int) *layers.IPv4 { return mk4p(f, ihlBytes, nil) }

func mk4p(f frag, ihlBytes int, pl []byte) *layers.IPv4 {
	ihlBytes = hdrOf(f, ihlBytes)
	n := (f.b - f.a) * unit
	if pl == nil {
		pl = make([]byte, n)
		for i := range pl {
			pl[i] = pbyte(f.id, f.a*unit+i)
		}
	}
	ip := &layers.IPv4{Version: 4, IHL: uint8(ihlBytes / 4), TOS: 3, Length: uint16(ihlBytes + n), Id: 100, FragOffset: uint16(f.a), TTL: 61, Protocol: layers.IPProtocolUDP,
		SrcIP: net.IP{10, 0, 0, 1}, DstIP: net.IP{10, 0, 0, 2}, Options: opts[ihlBytes]}
	if f.id != 0 {
		// the second datagram differs from the first in exactly one component of the (src,dst,id) key
		switch otherKey {
		case 0:
			ip.Id = 101
		case 1:
			ip.SrcIP, ip.DstIP = ip.DstIP, ip.SrcIP // the reverse direction, same id
		case 2:
			ip.SrcIP = net.IP{10, 0, 0, 3}
		case 3:
			ip.DstIP = net.IP{10, 0, 0, 3}
		}
	}
	if f.mf {
		ip.Flags = layers.IPv4MoreFragments
	}
	ip.Payload = pl
	return ip
}

type ctx struct {
	r     *report.Run
	mu    sync.Mutex
	evals int64
	outc  sync.Map
}

func (c *ctx) fail(key, what string, order int64, ex any) {
	c.mu.Lock()
	c.r.Violation("c13|"+key, what, order, ex)
	c.mu.Unlock()
}

// check4 judges a returned IPv4 datagram against what was fed so far.
func check4(out *layers.IPv4, fed []frag, id, ihl int) string {
	covered := map[int]bool{}
	lasts := map[int]bool{} // ends of the fragments sent without MF (a hostile set may contain several)
	for _, f := range fed {
		if f.id != id {
			continue
		}
		for i := f.a * unit; i < f.b*unit; i++ {
			covered[i] = true
		}
		if !f.mf {
			lasts[f.b*unit] = true
		}
	}
	for i, b := range out.Payload {
		if b != pbyte(id, i) {
			return fmt.Sprintf("byte-at-wrong-offset: payload[%d]=%#x was sent for offset %d of datagram %d, not for offset %d of datagram %d", i, b, int(b&0x3f), int(b>>6), i, id)
		}
		if !covered[i] {
			return fmt.Sprintf("invented-byte: payload[%d] was never sent", i)
		}
	}
	// (for a benign set the caller additionally requires the complete original; a hostile set
	// may contain fragments beyond its "final" one, so only the existence of a final fragment
	// is demanded here)
	if len(lasts) == 0 {
		return fmt.Sprintf("datagram-returned-without-final-fragment: %d payload bytes returned, but no fragment with MF clear was received", len(out.Payload))
	}
	if out.Flags&layers.IPv4MoreFragments != 0 || out.FragOffset != 0 {
		return "fragmentation-fields-not-cleared"
	}
	if int(out.Length) != int(out.IHL)*4+len(out.Payload) {
		return fmt.Sprintf("length-inconsistent: Length=%d IHL=%d payload=%d", out.Length, out.IHL, len(out.Payload))
	}
	return ""
}

var t0 = time.Unix(1_700_000_000, 0)

// benign: a partition of datagram 0 (optionally with one duplicate, optionally interleaved
// with datagram 1) in a given arrival order.
func (c *ctx) benign(arrivals []frag, ihl int, nIDs int, totals []int) {
	atomic.AddInt64(&c.evals, 1)
	d := ip4defrag.NewIPv4Defragmenter()
	var fed []frag
	seenUnits := make([]map[int]bool, nIDs)
	done := make([]bool, nIDs)
	for i := range seenUnits {
		seenUnits[i] = map[int]bool{}
	}
	ex := func() any {
		return map[string]any{"family": "benign", "header_bytes": ihl, "arrivals": fmt.Sprint(arrivals)}
	}
	// the fragments' payloads are windows onto one shared capture buffer (nil for layouts it cannot hold)
	cb := newCaptureBuffer(arrivals)
	for step, f := range arrivals {
		var pl []byte
		if cb != nil {
			pl = cb.payload(f)
		}
		out, err := d.DefragIPv4WithTimestamp(mk4p(f, ihl, pl), t0.Add(time.Duration(step)*time.Second))
		if cb != nil && !bytes.Equal(cb.mem, cb.pristine) {
			c.fail("benign|capture-buffer-of-the-fragments-overwritten|hdr"+fmt.Sprint(ihl), fmt.Sprintf("step %d (%v): the defragmenter wrote into the buffer the fragments were decoded from (NoCopy), where fragments not yet handed over lie; arrivals %v", step, f, arrivals), int64(len(arrivals)), ex())
			return
		}
		fed = append(fed, f)
		for u := f.a; u < f.b; u++ {
			seenUnits[f.id][u] = true
		}
		complete := len(seenUnits[f.id]) == totals[f.id]
		key := fmt.Sprintf("|hdr%d", ihl)
		if err != nil {
			c.fail("benign|error-on-benign-fragments"+key, fmt.Sprintf("step %d (%v): error %v; arrivals %v", step, f, err, arrivals), int64(len(arrivals)), ex())
			return
		}
		switch {
		case out != nil && (done[f.id] || !complete):
			c.fail("benign|datagram-returned-too-early-or-twice"+key, fmt.Sprintf("step %d (%v): a datagram came back although %s; arrivals %v", step, f, map[bool]string{true: "it had been returned before", false: "fragments are still missing"}[done[f.id]], arrivals), int64(len(arrivals)), ex())
			return
		case out == nil && complete && !done[f.id]:
			c.fail("benign|complete-set-not-reassembled"+key, fmt.Sprintf("step %d (%v): all fragments of datagram %d have arrived, nothing returned; arrivals %v", step, f, f.id, arrivals), int64(len(arrivals)), ex())
			return
		case out != nil:
			done[f.id] = true
			if w := check4(out, fed, f.id, ihl); w != "" {
				c.fail("benign|"+w[:indexColon(w)]+key, fmt.Sprintf("step %d (%v): %s; arrivals %v", step, f, w, arrivals), int64(len(arrivals)), ex())
				return
			}
			if len(out.Payload) != totals[f.id]*unit {
				c.fail("benign|payload-length-wrong"+key, fmt.Sprintf("%d bytes returned, the datagram has %d", len(out.Payload), totals[f.id]*unit), int64(len(arrivals)), ex())
			}
			if int(out.IHL)*4 != ihl && !(ihl > 100 && (int(out.IHL)*4 == ihl/100 || int(out.IHL)*4 == ihl%100)) {
				c.fail("benign|header-length-changed"+key, fmt.Sprintf("IHL %d", out.IHL), int64(len(arrivals)), ex())
			}
		}
	}
}

func indexColon(s string) int {
	for i := range s {
		if s[i] == ':' {
			return i
		}
	}
	return len(s)
}

func compositions(n int) [][][2]int {
	var out [][][2]int
	for mask := 0; mask < 1<<(n-1); mask++ {
		var parts [][2]int
		start := 0
		for i := 1; i <= n; i++ {
			if i == n || mask&(1<<(i-1)) != 0 {
				parts = append(parts, [2]int{start, i})
				start = i
			}
		}
		out = append(out, parts)
	}
	return out
}

func permutations(n int, f func([]int)) {
	p := make([]int, n)
	for i := range p {
		p[i] = i
	}
	var rec func(k int)
	rec = func(k int) {
		if k == n {
			f(p)
			return
		}
		for i := k; i < n; i++ {
			p[k], p[i] = p[i], p[k]
			rec(k + 1)
			p[k], p[i] = p[i], p[k]
		}
	}
	rec(0)
}

func (c *ctx) benignSpace(maxN int, hdrs []int) {
	var wg sync.WaitGroup
	sem := make(chan struct{}, runtime.NumCPU())
	for n := 1; n <= maxN; n++ {
		for _, parts := range compositions(n) {
			if len(parts) == 1 {
				continue // unfragmented: pass-through family
			}
			parts := parts
			n := n
			wg.Add(1)
			sem <- struct{}{}
			go func() {
				defer wg.Done()
				defer func() { <-sem }()
				defer c.guard("benign")
				frs := make([]frag, len(parts))
				for i, p := range parts {
					frs[i] = frag{0, p[0], p[1], p[1] != n}
				}
				for _, h := range hdrs {
					permutations(len(frs), func(p []int) {
						arr := make([]frag, len(p))
						for i, j := range p {
							arr[i] = frs[j]
						}
						c.benign(arr, h, 1, []int{n})
						// one duplicated fragment at every position
						if h == hdrs[0] || len(frs) <= 3 {
							for di := range frs {
								for pos := 0; pos <= len(arr); pos++ {
									dup := append(append(append([]frag(nil), arr[:pos]...), frs[di]), arr[pos:]...)
									c.benign(dup, h, 1, []int{n})
								}
							}
						}
					})
				}
			}()
		}
	}
	wg.Wait()
	// interleaving with the fragments of a second datagram whose key differs in one
	// component (other id / reverse direction with the same id / other source / other
	// destination): every merge of the two arrival orders, small n
	for otherKey = 0; otherKey < 4; otherKey++ {
		for n := 2; n <= 3 && n <= maxN; n++ {
			for _, parts := range compositions(n) {
				if len(parts) == 1 {
					continue
				}
				frs := make([]frag, len(parts))
				for i, p := range parts {
					frs[i] = frag{0, p[0], p[1], p[1] != n}
				}
				other := []frag{{1, 0, 1, true}, {1, 1, 2, false}}
				permutations(len(frs), func(p []int) {
					arr := make([]frag, len(p))
					for i, j := range p {
						arr[i] = frs[j]
					}
					for _, o := range [][]frag{other, {other[1], other[0]}} {
						merges(arr, o, nil, func(m []frag) { c.benign(m, hdrs[0], 2, []int{n, 2}) })
					}
				})
			}
		}
	}
	otherKey = 0
}

func merges(a, b, acc []frag, f func([]frag)) {
	if len(a) == 0 && len(b) == 0 {
		f(acc)
		return
	}
	if len(a) > 0 {
		merges(a[1:], b, append(acc, a[0]), f)
	}
	if len(b) > 0 {
		merges(a, b[1:], append(acc[:len(acc):len(acc)], b[0]), f)
	}
}

func (c *ctx) guard(fam string) {
	if x := recover(); x != nil {
		k, site := report.PanicKey(x, debug.Stack())
		c.fail(fam+"|"+k, fmt.Sprintf("panic %v at %s", x, site), 0, map[string]any{"family": fam})
	}
}

// hostile: every sequence of <= depth fragments over {[a,b) x MF} for an n-unit datagram
func (c *ctx) hostileSpace(n, depth int) {
	var alpha []frag
	for a := 0; a < n; a++ {
		for b := a + 1; b <= n; b++ {
			alpha = append(alpha, frag{0, a, b, true}, frag{0, a, b, false})
		}
	}
	var wg sync.WaitGroup
	sem := make(chan struct{}, runtime.NumCPU())
	for _, first := range alpha {
		first := first
		wg.Add(1)
		sem <- struct{}{}
		go func() {
			defer wg.Done()
			defer func() { <-sem }()
			seq := []frag{first}
			var rec func()
			rec = func() {
				c.hostile(seq)
				if len(seq) == depth {
					return
				}
				for _, f := range alpha {
					seq = append(seq, f)
					rec()
					seq = seq[:len(seq)-1]
				}
			}
			rec()
		}()
	}
	wg.Wait()
}

func (c *ctx) hostile(seq []frag) {
	atomic.AddInt64(&c.evals, 1)
	defer func() {
		if x := recover(); x != nil {
			k, site := report.PanicKey(x, debug.Stack())
			c.fail("hostile|"+k, fmt.Sprintf("panic %v at %s; fragments %v", x, site, seq), int64(len(seq)), map[string]any{"family": "hostile", "fragments": fmt.Sprint(seq)})
		}
	}()
	d := ip4defrag.NewIPv4Defragmenter()
	var fed []frag
	for step, f := range seq {
		in := mk4(f, 20)
		out, _ := d.DefragIPv4WithTimestamp(in, t0.Add(time.Duration(step)*time.Second))
		if f.a == 0 && !f.mf {
			// offset 0 without MF is an unfragmented packet: it must come back as it is
			if out != in {
				c.fail("hostile|unfragmented-packet-not-passed-through", fmt.Sprintf("step %d; fragments %v", step, seq[:step+1]), int64(step+1), map[string]any{"family": "hostile", "fragments": fmt.Sprint(seq[:step+1])})
				return
			}
			continue
		}
		fed = append(fed, f)
		if out != nil {
			if w := check4(out, fed, 0, 20); w != "" {
				c.fail("hostile|"+w[:indexColon(w)], fmt.Sprintf("step %d: %s; fragments %v", step, w, seq[:step+1]), int64(step+1), map[string]any{"family": "hostile", "fragments": fmt.Sprint(seq[:step+1])})
				return
			}
			c.outc.Store(fmt.Sprint("hostile-complete", len(out.Payload)), true)
		}
	}
}

func (c *ctx) limits() {
	defer c.guard("limits")
	d := ip4defrag.NewIPv4Defragmenter()
	ex := map[string]any{"family": "limits"}
	// unfragmented and DF packets pass through unchanged (same pointer)
	for _, fl := range []layers.IPv4Flag{0, layers.IPv4DontFragment, layers.IPv4DontFragment | layers.IPv4MoreFragments, layers.IPv4EvilBit, layers.IPv4EvilBit | layers.IPv4DontFragment} {
		ip := mk4(frag{0, 0, 2, false}, 20)
		ip.Flags = fl
		snap := *ip
		out, err := d.DefragIPv4(ip)
		if err != nil || out != ip || out.Length != snap.Length || out.Flags != snap.Flags || !bytes.Equal(out.Payload, snap.Payload) {
			c.fail("limits|unfragmented-packet-not-passed-through", fmt.Sprintf("flags %v: out==in %v err %v", fl, out == ip, err), 0, ex)
		}
		atomic.AddInt64(&c.evals, 1)
	}
	// fragment shorter than 8 bytes with MF
	ip := mk4(frag{0, 0, 1, true}, 20)
	ip.Payload, ip.Length = ip.Payload[:7], 27
	if out, err := d.DefragIPv4(ip); err == nil || out != nil {
		c.fail("limits|undersized-fragment-accepted", fmt.Sprint(out != nil, err), 0, ex)
	}
	// offset beyond 8183 / overrun of 65535
	ip = mk4(frag{0, 0, 1, false}, 20)
	ip.FragOffset = 8184
	if out, err := d.DefragIPv4(ip); err == nil || out != nil {
		c.fail("limits|oversize-offset-accepted", fmt.Sprint(out != nil, err), 0, ex)
	}
	ip = mk4(frag{0, 0, 200, false}, 20)
	ip.FragOffset = 8100
	if out, _ := d.DefragIPv4(ip); out != nil {
		c.fail("limits|overrun-accepted", "a datagram was returned for a fragment reaching beyond 65535", 0, ex)
	}
	// too many fragments: 8193 distinct one-unit fragments, never completing
	d = ip4defrag.NewIPv4Defragmenter()
	sawErr := false
	for i := 0; i < 8183; i++ {
		out, err := d.DefragIPv4(mk4raw(i+1, 1, true))
		if out != nil {
			c.fail("limits|datagram-from-incomplete-set", fmt.Sprintf("fragment %d", i), 0, ex)
			break
		}
		if err != nil {
			sawErr = true
		}
		atomic.AddInt64(&c.evals, 1)
	}
	_ = sawErr
	// discard: a partial datagram touched before the cut-off never contributes; one touched at/after it still completes
	for _, cutBefore := range []bool{true, false} {
		d = ip4defrag.NewIPv4Defragmenter()
		d.DefragIPv4WithTimestamp(mk4(frag{0, 0, 1, true}, 20), t0)
		cut := t0.Add(time.Second)
		if !cutBefore {
			cut = t0
		}
		d.DiscardOlderThan(cut)
		out, err := d.DefragIPv4WithTimestamp(mk4(frag{0, 1, 2, false}, 20), t0.Add(2*time.Second))
		atomic.AddInt64(&c.evals, 1)
		if cutBefore && out != nil {
			c.fail("discard|forgotten-fragment-contributed", "a datagram was completed with a fragment older than the discard cut-off", 0, ex)
		}
		if !cutBefore && (out == nil || err != nil) {
			c.fail("discard|recent-partial-datagram-forgotten", fmt.Sprintf("partial datagram touched at the cut-off did not complete: %v", err), 0, ex)
		} else if !cutBefore {
			if w := check4(out, []frag{{0, 0, 1, true}, {0, 1, 2, false}}, 0, 20); w != "" {
				c.fail("discard|"+w[:indexColon(w)], w, 0, ex)
			}
		}
	}
}

// discardSpace: every composition of a datagram of 2..4 units x every arrival order (arrival i at
// t0+i s) x one DiscardOlderThan before every arrival but the first x every cut-off at, and half
// a second after, each earlier arrival time (and one second after the latest). Model: the partial
// datagram was last touched at the latest arrival so far; it is forgotten iff that time lies
// before the cut-off; forgotten fragments never contribute, kept ones still complete.
func (c *ctx) discardSpace() {
	for n := 2; n <= 4; n++ {
		for _, parts := range compositions(n) {
			if len(parts) == 1 {
				continue
			}
			frs := make([]frag, len(parts))
			for i, p := range parts {
				frs[i] = frag{0, p[0], p[1], p[1] != n}
			}
			permutations(len(frs), func(p []int) {
				arr := make([]frag, len(p))
				for i, j := range p {
					arr[i] = frs[j]
				}
				for k := 1; k < len(arr); k++ {
					var cuts []time.Duration
					for j := 0; j < k; j++ {
						cuts = append(cuts, time.Duration(j)*time.Second, time.Duration(j)*time.Second+500*time.Millisecond)
					}
					cuts = append(cuts, time.Duration(k)*time.Second)
					for _, cut := range cuts {
						func() {
							defer c.guard("discard")
							d := ip4defrag.NewIPv4Defragmenter()
							held := 0
							ex := map[string]any{"family": "discard", "arrivals": fmt.Sprint(arr), "discard_before_arrival": k, "cut_off_s": cut.Seconds()}
							for i, f := range arr {
								if i == k {
									d.DiscardOlderThan(t0.Add(cut))
									if time.Duration(k-1)*time.Second < cut {
										held = 0 // last touched before the cut-off: forgotten
									}
								}
								out, err := d.DefragIPv4WithTimestamp(mk4(f, 20), t0.Add(time.Duration(i)*time.Second))
								held++
								atomic.AddInt64(&c.evals, 1)
								complete := held == len(arr)
								switch {
								case out != nil && !complete:
									c.fail("discard|forgotten-fragment-contributed", fmt.Sprintf("arrival %d (%v) returned a datagram although fragments older than the cut-off had been discarded", i, f), int64(len(arr)), ex)
									return
								case out == nil && complete:
									c.fail("discard|recent-partial-datagram-forgotten", fmt.Sprintf("arrival %d (%v): all fragments are held (the datagram was last touched at %ds, cut-off %.1fs) but nothing was returned (err %v)", i, f, k-1, cut.Seconds(), err), int64(len(arr)), ex)
									return
								case out != nil:
									if w := check4(out, arr, 0, 20); w != "" {
										c.fail("discard|"+w[:indexColon(w)], w, int64(len(arr)), ex)
									}
								}
							}
						}()
					}
				}
			})
		}
	}
}

func mk4raw(off, units int, mf bool) *layers.IPv4 {
	return mk4(frag{0, off, off + units, mf}, 20)
}

// IPv6: all compositions x permutations; the last arrival returns the payload; earlier non-nil results equal it
func (c *ctx) ipv6Space(maxN int) {
	for n := 2; n <= maxN; n++ {
		for _, parts := range compositions(n) {
			if len(parts) == 1 {
				continue
			}
			frs := make([]frag, len(parts))
			for i, p := range parts {
				frs[i] = frag{0, p[0], p[1], p[1] != n}
			}
			permutations(len(frs), func(p []int) {
				arr := make([]frag, len(p))
				for i, j := range p {
					arr[i] = frs[j]
				}
				c.ipv6(arr, n)
				for di := range frs { // a duplicate in front and at the end
					c.ipv6(append([]frag{frs[di]}, arr...), n)
					c.ipv6(append(append([]frag(nil), arr...), frs[di]), n)
				}
			})
		}
	}
}

func (c *ctx) ipv6(arr []frag, n int) {
	atomic.AddInt64(&c.evals, 1)
	ex := map[string]any{"family": "ipv6", "arrivals": fmt.Sprint(arr)}
	defer func() {
		if x := recover(); x != nil {
			k, site := report.PanicKey(x, debug.Stack())
			c.fail("ipv6|"+k, fmt.Sprintf("panic %v at %s; arrivals %v", x, site, arr), int64(len(arr)), ex)
		}
	}()
	d := ip6defrag.NewIPv6Defragmenter()
	want := make([]byte, n*unit)
	for i := range want {
		want[i] = pbyte(0, i)
	}
	seen := map[int]bool{}
	for step, f := range arr {
		ip := &layers.IPv6{Version: 6, NextHeader: layers.IPProtocolIPv6Fragment, HopLimit: 9, SrcIP: net.ParseIP("fe80::1"), DstIP: net.ParseIP("fe80::2")}
		fg := &layers.IPv6Fragment{NextHeader: layers.IPProtocolUDP, FragmentOffset: uint16(f.a), MoreFragments: f.mf, Identification: 77}
		pl := make([]byte, (f.b-f.a)*unit)
		for i := range pl {
			pl[i] = pbyte(0, f.a*unit+i)
		}
		fg.Payload = pl
		out := d.DefragIPv6(ip, fg)
		for u := f.a; u < f.b; u++ {
			seen[u] = true
		}
		complete := len(seen) == n
		if out != nil && !bytes.Equal(out.Payload, want) {
			c.fail("ipv6|wrong-payload", fmt.Sprintf("step %d (%v): payload %x want %x; arrivals %v", step, f, out.Payload, want, arr), int64(len(arr)), ex)
			return
		}
		if out == nil && complete {
			c.fail("ipv6|complete-set-not-reassembled", fmt.Sprintf("step %d (%v): all fragments arrived, nothing returned; arrivals %v", step, f, arr), int64(len(arr)), ex)
			return
		}
		if out != nil && out.NextHeader != layers.IPProtocolUDP {
			c.fail("ipv6|next-header", fmt.Sprint(out.NextHeader), int64(len(arr)), ex)
		}
	}
}

func main() {
	r := report.New("C13", "exploration")
	if os.Getenv("VERIF_REPLAY") != "" {
		fmt.Println("replay: the failing arrival sequence is in the replay file (family, header_bytes, arrivals/fragments); re-run the check to reproduce (whole check < 1 min)")
		os.Exit(0)
	}
	c := &ctx{r: r}
	maxN, hostN, hostDepth, v6N := 7, 6, 4, 6
	hdrs := []int{20, 24, 40, 60, 2420, 4024, 6020}
	if r.Thorough() {
		maxN, hostN, hostDepth, v6N = 8, 6, 5, 7
	}
	c.benignSpace(maxN, hdrs)
	e1 := atomic.LoadInt64(&c.evals)
	c.hostileSpace(hostN, hostDepth)
	e2 := atomic.LoadInt64(&c.evals)
	c.limits()
	c.discardSpace()
	c.ipv6Space(v6N)
	e3 := atomic.LoadInt64(&c.evals)
	n := 0
	c.outc.Range(func(k, v any) bool { n++; return true })
	r.Coverage["evaluations"] = e3
	r.Coverage["distinct_nontrivial"] = n + 2
	r.Coverage["benign_arrival_sequences"] = e1
	r.Coverage["hostile_fragment_sequences"] = e2 - e1
	r.Coverage["limit_discard_and_ipv6_sequences"] = e3 - e2
	r.Coverage["samples"] = []any{map[string]any{"family": "benign", "header_bytes": 24, "arrivals": "[id0[2,3)+MF id0[0,2)+MF id0[3,6)]"}, map[string]any{"family": "hostile", "fragments": "[id0[0,2)+MF id0[3,4) id0[1,2)+MF]"}}
	r.Coverage["rule"] = fmt.Sprintf("benign: every composition of N=1..%d 8-byte units into >=2 fragments x every arrival order x header length {20,24,40,60} (options on every fragment) and {24|20, 40|24, 60|20} (first fragment | later fragments: options that are not copied) x one duplicated fragment at every position, and for N<=3 every merge with the two fragments of a second datagram: nothing may be returned before the last missing fragment, then exactly one datagram whose payload bytes (which encode datagram id and offset) are the original, MF/offset cleared, Length = IHL*4+len(payload). hostile: every sequence of <=%d fragments over all [a,b)xMF for a %d-unit datagram: any datagram returned must consist only of bytes sent for their own offset, all of them received, ending at a seen last fragment. limits: undersized/oversize/overrun fragments refused, unfragmented and DF packets returned as the same pointer, DiscardOlderThan (every composition of 2..4 units x every arrival order x a discard before every arrival x every cut-off at and between the earlier arrival times). IPv6: all compositions x orders for N<=%d with duplicates. distinct_nontrivial = distinct hostile completion lengths + families.", maxN, hostDepth, hostN, v6N)
	r.Assumptions = []string{"provenance encoding: payload byte = id<<6 | offset (datagrams of at most 64 bytes)", "8193-fragment list limit exercised with 8183 distinct fragments only (offset limit)"}
	r.Finish()
}
