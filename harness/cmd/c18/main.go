// C18: the serialize buffer holds exactly what was written, in position order.
package main

import (
	"bytes"
	"fmt"
	"os"
	"runtime"
	"sync"
	"sync/atomic"
	"unsafe"

	"github.com/gopacket/gopacket"

	"verif/engine/report"
	"verif/engine/statex"
)

// ---- alphabet -------------------------------------------------------------

type op struct {
	kind int // 0 prepend, 1 append, 2 clear, 3 pushlayer, 4 SerializeLayers(a,b,c), 5 late write into still-valid slices
	n    int
}

func (o op) String() string {
	switch o.kind {
	case 0:
		return fmt.Sprintf("Prepend(%d)", o.n)
	case 1:
		return fmt.Sprintf("Append(%d)", o.n)
	case 2:
		return "Clear"
	case 3:
		return fmt.Sprintf("PushLayer(%d)", o.n)
	case 4:
		return "SerializeLayers(m2,m0,m3)"
	}
	return "LateWrite"
}

var sizes = []int{0, 1, 2, 3, 5, 8, 17}

func alphabet() []op {
	var a []op
	for _, n := range sizes {
		a = append(a, op{0, n})
	}
	for _, n := range sizes {
		a = append(a, op{1, n})
	}
	a = append(a, op{2, 0}, op{3, 7}, op{4, 0}, op{5, 0})
	return a
}

var inits = [][2]int{{-1, -1}, {0, 0}, {0, 3}, {3, 0}, {2, 2}, {8, 8}}

func newBuf(i int) gopacket.SerializeBuffer {
	if inits[i][0] < 0 {
		return gopacket.NewSerializeBuffer()
	}
	return gopacket.NewSerializeBufferExpectedSize(inits[i][0], inits[i][1])
}

// marker layer: prepends n marker bytes
type marker struct {
	n  int
	id byte
	lt gopacket.LayerType
}

func (m marker) LayerType() gopacket.LayerType { return m.lt }
func (m marker) SerializeTo(b gopacket.SerializeBuffer, _ gopacket.SerializeOptions) error {
	s, err := b.PrependBytes(m.n)
	if err != nil {
		return err
	}
	for i := range s {
		s[i] = m.id + byte(i)
	}
	return nil
}

// ---- reference model: a deque with absolute coordinates -------------------------

type model struct {
	data   []byte // contents
	origin int    // absolute coordinate of data[0]
	layers []gopacket.LayerType
}

type live struct {
	s    []byte
	abs  int            // absolute coordinate of s[0]
	base unsafe.Pointer // backing array of the buffer when s was handed out
	gen  int            // clear generation
}

type runner struct {
	buf     gopacket.SerializeBuffer
	m       model
	next    byte
	lives   []live
	gen     int
	viol    string
	violKey string
}

func (r *runner) fresh() byte { r.next++; return r.next }

func (r *runner) fail(key, what string) {
	if r.viol == "" {
		r.violKey, r.viol = key, what
	}
}

type skey [6]int32

func (k skey) String() string { return fmt.Sprint([6]int32(k)) }

func (r *runner) state() (unsafe.Pointer, skey) {
	_, p, start, l, c, pre, app, nl := gopacket.VerifSerializeBufferState(r.buf)
	return p, skey{int32(start), int32(l), int32(c), int32(pre), int32(app), int32(nl)}
}

func (r *runner) check(after string) {
	if r.viol != "" {
		return
	}
	if !bytes.Equal(r.buf.Bytes(), r.m.data) {
		r.fail("contents|Bytes() differs from what was written", fmt.Sprintf("after %s: Bytes()=%x model=%x", after, r.buf.Bytes(), r.m.data))
	}
	ls := r.buf.Layers()
	if len(ls) != len(r.m.layers) {
		r.fail("layers|Layers() differs from the recorded layers", fmt.Sprintf("after %s: Layers()=%v model=%v", after, ls, r.m.layers))
		return
	}
	for i := range ls {
		if ls[i] != r.m.layers[i] {
			r.fail("layers|Layers() differs from the recorded layers", fmt.Sprintf("after %s: Layers()=%v model=%v", after, ls, r.m.layers))
			return
		}
	}
}

func (r *runner) apply(o op) {
	defer func() {
		if x := recover(); x != nil {
			r.fail("panic|"+report.PanicClass(x), fmt.Sprintf("%v panicked: %v", o, x))
		}
	}()
	switch o.kind {
	case 0, 1:
		var s []byte
		var err error
		if o.kind == 0 {
			s, err = r.buf.PrependBytes(o.n)
		} else {
			s, err = r.buf.AppendBytes(o.n)
		}
		if err != nil {
			r.fail("error|unexpected error", fmt.Sprintf("%v returned %v", o, err))
			return
		}
		if len(s) != o.n {
			r.fail("window|returned slice has the wrong length", fmt.Sprintf("%v returned %d bytes", o, len(s)))
			return
		}
		w := make([]byte, o.n)
		for i := range w {
			w[i] = r.fresh()
		}
		copy(s, w)
		var abs int
		if o.kind == 0 {
			r.m.data = append(append([]byte(nil), w...), r.m.data...)
			r.m.origin -= o.n
			abs = r.m.origin
		} else {
			abs = r.m.origin + len(r.m.data)
			r.m.data = append(r.m.data, w...)
		}
		// the returned slice must be a window onto the contents
		if o.n > 0 {
			b := r.buf.Bytes()
			if len(b) >= o.n {
				var win []byte
				if o.kind == 0 {
					win = b[:o.n]
				} else {
					win = b[len(b)-o.n:]
				}
				if &win[0] != &s[0] {
					r.fail("window|returned slice is not a window onto Bytes()", fmt.Sprintf("%v", o))
				}
			}
		}
		p, _ := r.state()
		r.lives = append(r.lives, live{s, abs, p, r.gen})
		if len(r.lives) > 3 {
			r.lives = r.lives[len(r.lives)-3:]
		}
	case 2:
		if err := r.buf.Clear(); err != nil {
			r.fail("error|unexpected error", "Clear returned "+err.Error())
		}
		r.m.data, r.m.layers = nil, nil
		r.gen++
		if len(r.buf.Bytes()) != 0 || len(r.buf.Layers()) != 0 {
			r.fail("clear|Clear does not empty contents and layers", fmt.Sprintf("Bytes()=%x Layers()=%v", r.buf.Bytes(), r.buf.Layers()))
		}
	case 3:
		r.buf.PushLayer(gopacket.LayerType(o.n))
		r.m.layers = append(r.m.layers, gopacket.LayerType(o.n))
	case 4:
		a, b, c := marker{2, 0xA0, 1001}, marker{0, 0xB0, 1002}, marker{3, 0xC0, 1003}
		if err := gopacket.SerializeLayers(r.buf, gopacket.SerializeOptions{}, a, b, c); err != nil {
			r.fail("error|unexpected error", "SerializeLayers returned "+err.Error())
		}
		r.gen++
		r.m.data = []byte{0xA0, 0xA1, 0xC0, 0xC1, 0xC2}
		r.m.origin = -5
		r.m.layers = []gopacket.LayerType{1003, 1002, 1001}
	case 5:
		// write again into previously returned slices that are still valid (same
		// backing array, no Clear since)
		p, _ := r.state()
		for _, l := range r.lives {
			if l.gen != r.gen || l.base != p || len(l.s) == 0 {
				continue
			}
			for i := range l.s {
				v := r.fresh()
				l.s[i] = v
				r.m.data[l.abs-r.m.origin+i] = v
			}
		}
	}
	r.check(o.String())
}

func runSeq(init int, alpha []op, seq []int) (*runner, skey) {
	r := &runner{buf: newBuf(init)}
	r.check("construction")
	for _, i := range seq {
		if r.viol != "" {
			break
		}
		r.apply(alpha[i])
	}
	_, st := r.state()
	return r, st
}

func describe(init int, alpha []op, seq []int) map[string]any {
	var ops []string
	for _, i := range seq {
		ops = append(ops, alpha[i].String())
	}
	in := "NewSerializeBuffer()"
	if inits[init][0] >= 0 {
		in = fmt.Sprintf("NewSerializeBufferExpectedSize(%d,%d)", inits[init][0], inits[init][1])
	}
	return map[string]any{"init": in, "init_index": init, "ops": ops, "seq": append([]int(nil), seq...)}
}

func main() {
	r := report.New("C18", "model_checking")
	alpha := alphabet()
	if rp := os.Getenv("VERIF_REPLAY"); rp != "" {
		var f struct {
			Replay struct {
				Init int   `json:"init_index"`
				Seq  []int `json:"seq"`
			} `json:"replay"`
		}
		report.ReadJSON(rp, &f)
		fmt.Println("replaying", describe(f.Replay.Init, alpha, f.Replay.Seq))
		run, _ := runSeq(f.Replay.Init, alpha, f.Replay.Seq)
		if run.viol != "" {
			fmt.Println("REPRODUCED", run.violKey, run.viol)
			os.Exit(1)
		}
		fmt.Println("no violation reproduced")
		os.Exit(0)
	}
	depth, bfsDepth := 5, 7
	if r.Thorough() {
		depth, bfsDepth = 6, 9
	}
	workers := runtime.NumCPU()
	var mu sync.Mutex
	outcomes := map[string]struct{}{}
	var seqs, trans int64
	var samples []any
	// 1. stateless: every sequence of length `depth` (all shorter ones are prefixes) x every initial buffer
	for init := range inits {
		local := make([]map[skey]struct{}, workers)
		for i := range local {
			local[i] = map[skey]struct{}{}
		}
		n, complete := statex.Sequences(len(alpha), depth, workers, r.Expired, func(w int, seq []int) {
			run, st := runSeq(init, alpha, seq)
			local[w][st] = struct{}{}
			if run.viol != "" {
				r.Violation(run.violKey, run.viol+fmt.Sprintf(" (init %d, ops %v)", init, describe(init, alpha, seq)["ops"]), int64(len(seq)), describe(init, alpha, seq))
			}
		})
		seqs += n
		atomic.AddInt64(&trans, n*int64(depth))
		if !complete {
			r.Exhaustive = false
		}
		mu.Lock()
		for _, l := range local {
			for k := range l {
				outcomes[fmt.Sprintf("%d:%v", init, k)] = struct{}{}
			}
		}
		mu.Unlock()
		samples = append(samples, describe(init, alpha, []int{0, 9, 14, 3, 17}[:min(depth, 5)]))
	}
	// 2. explicit-state BFS on the structural key (start,len,cap,prepended,appended,#layers):
	// every method of the buffer reads only these, never the content bytes, so states with
	// equal keys have the same futures; contents are checked along the representative path.
	var bfsStates, bfsTrans int64
	bfsDepthDone := bfsDepth
	full := alpha
	alpha = nil
	for _, o := range full {
		if (o.kind == 0 || o.kind == 1) && o.n != 1 && o.n != 3 && o.n != 17 {
			continue
		}
		alpha = append(alpha, o)
	}
	for init := range inits {
		s, t, d, complete := statex.BFS(len(alpha), bfsDepth, workers, r.Expired, func(path []int) (string, bool) {
			run, st := runSeq(init, alpha, path)
			if run.viol != "" {
				r.Violation(run.violKey, run.viol, int64(len(path)), describe(init, alpha, path))
				return "", false
			}
			// live-slice validity is part of the state for the LateWrite letter
			lv := ""
			p, _ := run.state()
			for _, l := range run.lives {
				if l.gen == run.gen && l.base == p {
					lv += fmt.Sprintf(",%d+%d", l.abs-run.m.origin, len(l.s))
				}
			}
			return st.String() + lv, true
		})
		bfsStates += s
		bfsTrans += t
		if d < bfsDepthDone {
			bfsDepthDone = d
		}
		if !complete {
			r.Exhaustive = false
		}
	}
	r.Coverage["states"] = bfsStates + int64(len(outcomes))
	r.Coverage["transitions"] = bfsTrans + trans
	r.Coverage["traces_validated_against_impl"] = seqs + bfsTrans
	r.Coverage["stateless_sequences"] = seqs
	r.Coverage["stateless_depth"] = depth
	r.Coverage["bfs_states"] = bfsStates
	r.Coverage["bfs_transitions"] = bfsTrans
	r.Coverage["bfs_depth_completed"] = bfsDepthDone
	r.Coverage["distinct_structural_states_stateless"] = len(outcomes)
	r.Coverage["alphabet"] = fmt.Sprint(full)
	r.Coverage["bfs_alphabet"] = fmt.Sprint(alpha)
	r.Coverage["samples"] = samples
	r.Coverage["explanation"] = "Every operation sequence runs on a fresh real SerializeBuffer next to a deque model; after every operation Bytes() and Layers() are compared with the model, returned slices are checked to be n-byte windows onto Bytes(), and the LateWrite letter rewrites previously returned slices that are still valid (same backing array, no Clear). Part 1: all sequences of the stated length over the 18-letter alphabet x 6 initial buffers, unpruned. Part 2: BFS to the stated depth pruned on the structural key."
	r.Assumptions = []string{"the structural key (start,len,cap,prepended,appended,#layers,valid live slices) determines all future behaviour of the buffer: its methods never read content bytes", "sizes limited to {0,1,2,3,5,8,17}"}
	r.Finish()
}
