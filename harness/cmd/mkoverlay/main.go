// mkoverlay generates the `go build -overlay` files from the repository's
// current working tree:
//
//	overlay-plain.json  adds the read-only accessor files overlay/export_<pkg>.go
//	                    (build tag verif) to their packages;
//	overlay-sched.json  additionally replaces the files listed in schedFiles by
//	                    copies whose `sync` import is rewritten to the vsync
//	                    shim, and maps the virtual package directory
//	                    <repo>/zzverif/vsync onto overlay/vsync.
//
// The repository itself is never modified.
package main

import (
	"bytes"
	"encoding/json"
	"fmt"
	"go/ast"
	"go/parser"
	"go/printer"
	"go/token"
	"os"
	"path/filepath"
	"strconv"
	"strings"
)

var exports = map[string]string{
	"export_gopacket.go":    "",
	"export_reassembly.go":  "reassembly",
	"export_tcpassembly.go": "tcpassembly",
	"export_ip4defrag.go":   "ip4defrag",
	"export_pcapgo.go":      "pcapgo",
	"export_layers.go":      "layers",
}

// accessor files that need the shim's types: only in the sched overlay
var schedExports = map[string]string{
	"export_sched_gopacket.go": "",
}

var schedFiles = []string{"packet.go", "reassembly/memory.go", "reassembly/tcpassembly.go", "tcpassembly/assembly.go"}

const shimPath = "github.com/gopacket/gopacket/zzverif/vsync"

func main() {
	repo, root, work := os.Args[1], os.Args[2], os.Args[3]
	plain := map[string]string{}
	for f, pkg := range exports {
		src := filepath.Join(root, "overlay", f)
		if _, err := os.Stat(src); err != nil {
			continue
		}
		plain[filepath.Join(repo, pkg, "zz_verif_"+f)] = src
	}
	sched := map[string]string{}
	for k, v := range plain {
		sched[k] = v
	}
	for f, pkg := range schedExports {
		src := filepath.Join(root, "overlay", f)
		if _, err := os.Stat(src); err == nil {
			sched[filepath.Join(repo, pkg, "zz_verif_"+f)] = src
		}
	}
	vs, _ := filepath.Glob(filepath.Join(root, "overlay", "vsync", "*.go"))
	for _, f := range vs {
		sched[filepath.Join(repo, "zzverif", "vsync", filepath.Base(f))] = f
	}
	ovdir := filepath.Join(work, "ov")
	os.MkdirAll(ovdir, 0o755)
	for _, f := range schedFiles {
		src := filepath.Join(repo, f)
		fset := token.NewFileSet()
		af, err := parser.ParseFile(fset, src, nil, parser.ParseComments)
		if err != nil {
			fmt.Fprintln(os.Stderr, "mkoverlay:", err)
			os.Exit(1)
		}
		changed := false
		for _, im := range af.Imports {
			if im.Path.Value == `"sync"` {
				im.Path.Value = strconv.Quote(shimPath)
				if im.Name == nil {
					im.Name = ast.NewIdent("sync")
				}
				changed = true
			}
		}
		if !changed {
			continue
		}
		var b bytes.Buffer
		// keep line numbers identical to the original: a //line directive per file
		fmt.Fprintf(&b, "//line %s:1\n", src)
		cfg := printer.Config{Mode: printer.SourcePos | printer.TabIndent | printer.UseSpaces, Tabwidth: 8}
		if err := cfg.Fprint(&b, fset, af); err != nil {
			fmt.Fprintln(os.Stderr, "mkoverlay:", err)
			os.Exit(1)
		}
		dst := filepath.Join(ovdir, strings.ReplaceAll(f, "/", "__"))
		if old, err := os.ReadFile(dst); err != nil || !bytes.Equal(old, b.Bytes()) {
			os.WriteFile(dst, b.Bytes(), 0o644)
		}
		sched[src] = dst
	}
	write := func(name string, m map[string]string) {
		b, _ := json.MarshalIndent(map[string]any{"Replace": m}, "", " ")
		p := filepath.Join(work, name)
		if old, err := os.ReadFile(p); err != nil || !bytes.Equal(old, b) {
			os.WriteFile(p, b, 0o644)
		}
	}
	write("overlay-plain.json", plain)
	write("overlay-sched.json", sched)
}
