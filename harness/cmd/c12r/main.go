// C12 (reassembly part): assemblers sharing one stream pool are safe under
// every interleaving. Cooperative preemption-bounded schedule exploration over
// the vsync shim.
package main

import (
	"fmt"
	"os"
	"strconv"
	"strings"
	"time"

	"github.com/gopacket/gopacket"
	"github.com/gopacket/gopacket/layers"
	"github.com/gopacket/gopacket/reassembly"
	"github.com/gopacket/gopacket/zzverif/vsync"

	"verif/engine/dfs"
	"verif/engine/report"
	tm "verif/engine/tcpmodel"
)

const n = 4 // bytes per direction

// ---- operations -------------------------------------------------------------------

type opk int

const (
	oSeg opk = iota
	oFlushOlder
	oFlushAll
	oFlushOlderMid // age flush whose cut-off lies after the pre-fed packets and before the threads' packets
)

type pkt struct {
	k   opk
	key int // connection key index
	dir int
	ev  tm.Event
}

func (p pkt) String() string {
	switch p.k {
	case oFlushOlderMid:
		return "FlushOlderThan(between the earlier and the concurrent packets)"
	case oFlushOlder:
		return "FlushOlderThan(future)"
	case oFlushAll:
		return "FlushAll"
	}
	return fmt.Sprintf("K%d/d%d:%v", p.key, p.dir, p.ev)
}

type scenario struct {
	name    string
	pre     []pkt   // fed sequentially by assembler 0 before the threads start
	threads [][]pkt // one assembler per thread
	// waitKey+1 != 0: the factory call for that connection key waits until thread 0 has
	// finished (a factory that has to wait for a resource another assembler frees)
	waitKeyPlus1 int
}

func seg(key, dir int, e tm.Event) pkt { return pkt{k: oSeg, key: key, dir: dir, ev: e} }

func scenarios() []scenario {
	syn := tm.Event{K: tm.SYN}
	d := func(a, b int, fin bool) tm.Event { return tm.Event{K: tm.DATA, A: a, B: b, Fin: fin} }
	return []scenario{
		{name: "S1-first-packets-of-both-directions",
			threads: [][]pkt{{seg(0, 0, syn), seg(0, 0, d(0, 2, false))}, {seg(0, 1, syn), seg(0, 1, d(0, 2, false))}}},
		{name: "S2-same-direction-first-packet-race",
			threads: [][]pkt{{seg(0, 0, syn), seg(0, 0, d(0, 2, false))}, {seg(0, 0, syn), seg(0, 0, d(2, 4, false))}}},
		{name: "S3-close-and-reuse-vs-stale-lookup",
			pre:     []pkt{seg(0, 0, syn)},
			threads: [][]pkt{{seg(0, 0, d(0, 2, true)), seg(1, 0, syn), seg(1, 0, d(0, 2, false))}, {seg(0, 0, d(0, 2, false))}}},
		{name: "S4-flusher-vs-assembler",
			threads: [][]pkt{{seg(0, 0, syn), seg(0, 0, d(2, 4, false)), seg(0, 0, d(0, 2, false))}, {{k: oFlushOlder}, {k: oFlushAll}}}},
		{name: "S5-out-of-order-vs-in-order",
			pre:     []pkt{seg(0, 0, syn)},
			threads: [][]pkt{{seg(0, 0, d(2, 4, true))}, {seg(0, 0, d(0, 2, false))}}},
		{name: "S6-three-assemblers-close-reuse",
			pre:     []pkt{seg(0, 0, syn)},
			threads: [][]pkt{{seg(0, 0, d(0, 2, true))}, {seg(0, 0, d(2, 4, false))}, {seg(1, 0, syn), seg(1, 0, d(0, 4, false))}}},
		// one assembler hands a stream bytes that were buffered out of order (they sit in a page)
		// while another assembler buffers out-of-order data of ANOTHER connection: the bytes a
		// stream is looking at during its callback must not change under it
		{name: "S7-buffered-delivery-vs-buffering-on-another-connection",
			pre:     []pkt{seg(0, 0, syn), seg(0, 0, d(2, 4, false)), seg(1, 0, syn)},
			threads: [][]pkt{{seg(0, 0, d(0, 2, false))}, {seg(1, 0, d(2, 4, false)), seg(1, 0, d(1, 2, false))}}},
		// a connection is torn down and opened again under the same key while a flusher runs
		{name: "S9-close-and-reopen-vs-flusher",
			pre:     []pkt{seg(0, 0, syn), seg(0, 0, d(0, 2, false))},
			threads: [][]pkt{{seg(0, 0, tm.Event{K: tm.RST}), seg(0, 0, syn), seg(0, 0, d(0, 2, false))}, {{k: oFlushOlder}, {k: oFlushAll}}}},
		// a stream factory that waits for something only the other assembler can bring about:
		// it must not be called with a pool-wide lock held
		{name: "S10-factory-waits-for-the-other-assembler", waitKeyPlus1: 2,
			threads: [][]pkt{{seg(0, 0, syn), seg(0, 0, d(0, 2, false))}, {seg(1, 0, syn), seg(1, 0, d(0, 2, false))}}},
		// an age flush running while a connection it may judge stale receives newer data
		// (one connection only: the flush functions walk the pool's map, whose iteration order the
		// harness does not control - with two connections the same schedule could run differently)
		{name: "S11-age-flush-vs-newer-data",
			pre:     []pkt{seg(1, 0, syn), seg(1, 0, d(0, 2, false))},
			threads: [][]pkt{{{k: oFlushOlderMid}}, {seg(1, 0, d(2, 4, false))}}},
		// a connection is closed by an in-order RST while a segment is still queued behind a gap,
		// and a flusher that has already picked the connection up reaches it afterwards: a closed
		// connection must be left alone (no hand-over after completion, no second completion)
		{name: "S12-close-with-queued-pages-vs-flusher",
			pre:     []pkt{seg(0, 0, syn), seg(0, 0, d(2, 4, false))},
			threads: [][]pkt{{seg(0, 0, tm.Event{K: tm.RSTAT, A: 0})}, {{k: oFlushOlder}, {k: oFlushAll}}}},
		// both directions of one established connection are fed at the same moment by two assemblers
		{name: "S8-both-directions-of-an-established-connection",
			pre:     []pkt{seg(0, 0, syn), seg(0, 1, syn)},
			threads: [][]pkt{{seg(0, 0, d(0, 2, false)), seg(0, 0, d(2, 4, false))}, {seg(0, 1, d(0, 2, false)), seg(0, 1, d(2, 4, true))}}},
	}
}

// ---- harness ----------------------------------------------------------------------

type stream struct {
	w        *world
	key      string
	in       int
	calls    int
	complete int
	after    bool
	dirs     [2]*judgedDir
	newest   time.Time // newest packet time among the data handed over
}

type judgedDir struct {
	inst   tm.Inst
	dir    *tm.Dir
	judged bool // the direction is fed in order by a single thread
}

type world struct {
	finished []bool            // per thread: body done
	ageFlush map[int]time.Time // thread id -> cut-off of the age flush it is executing
	sc       *scenario
	pool     *reassembly.StreamPool
	asms     []*reassembly.Assembler
	streams  []*stream
	viol     []string
	what     string
	single   map[string]bool
}

func (w *world) fail(k, what string) {
	w.viol = append(w.viol, k)
	if w.what == "" {
		w.what = what
	}
}

// Accept is a callback of the connection's stream like the others: it must not run while
// another callback of the same stream is running
func (s *stream) Accept(tcp *layers.TCP, ci gopacket.CaptureInfo, dir reassembly.TCPFlowDirection, nextSeq reassembly.Sequence, start *bool, ac reassembly.AssemblerContext) bool {
	s.in++
	if s.in != 1 {
		s.w.fail("callbacks-overlap", "Accept entered while another callback of the same stream is running")
	}
	vsync.Yield("Accept")
	if s.in != 1 {
		s.w.fail("callbacks-overlap", "another callback of the same stream was entered while Accept was running")
	}
	s.in--
	return true
}

func (s *stream) ReassembledSG(sg reassembly.ScatterGather, ac reassembly.AssemblerContext) {
	s.in++
	if s.in != 1 {
		s.w.fail("callbacks-overlap", "ReassembledSG entered while another callback of the same stream is running")
	}
	if s.complete > 0 {
		s.after = true
		s.w.fail("data-after-completion", "ReassembledSG called after ReassemblyComplete")
	}
	s.calls++
	s.live()
	l0, _ := sg.Lengths()
	before := append([]byte(nil), sg.Fetch(l0)...)
	vsync.Yield("ReassembledSG")
	l, saved := sg.Lengths()
	all := sg.Fetch(l)
	if string(before) != string(all) {
		s.w.fail("bytes-change-during-callback", fmt.Sprintf("stream of connection %s: the bytes handed over read %q at the start of ReassembledSG and %q later in the same call", s.key[:2], before, all))
	}
	dir, start, end, skip := sg.Info()
	if l > saved {
		if ts := ac.GetCaptureInfo().Timestamp; ts.After(s.newest) {
			s.newest = ts
		}
	}
	d := 0
	if dir == reassembly.TCPDirServerToClient {
		d = 1
	}
	// the stream serves both directions of its connection: bytes must belong to one of them
	o0, o1 := keyOffset(s.key[:2]+"/d0"), keyOffset(s.key[:2]+"/d1")
	for _, b := range all[saved:] {
		v := int(b - 'a')
		if !(v >= o0 && v < o0+n) && !(v >= o1 && v < o1+n) {
			s.w.fail("bytes-of-another-connection", fmt.Sprintf("stream of connection %s was handed byte %q", s.key[:2], b))
		}
	}
	if j := s.dirs[d]; j != nil && j.judged {
		off := o0
		if bytesDir(all[saved:], o0, o1) == 1 {
			off = o1
		}
		dl := tm.Delivery{Skip: skip, Bytes: unshift(all[saved:], off), Start: start, End: end}
		if k, what := j.inst.Deliver(j.dir, dl, tm.StepCtx{FlushStep: true}); k != "" {
			s.w.fail("order|"+k, what)
		}
	}
	vsync.Yield("ReassembledSG-end")
	s.in--
}

// live: a stream that receives callbacks while another stream of the same connection has
// received callbacks and is not yet completed means the connection has two entries.
func (s *stream) live() {
	for _, o := range s.w.streams {
		if o != s && o.key == s.key && o.calls > 0 && o.complete == 0 {
			s.w.fail("two-connection-entries-for-one-connection", fmt.Sprintf("connection %s: two streams are receiving callbacks at the same time", s.key[:2]))
		}
	}
}

func bytesDir(b []byte, o0, o1 int) int {
	for _, x := range b {
		v := int(x - 'a')
		if v >= o1 && v < o1+n {
			return 1
		}
		return 0
	}
	return 0
}

func (s *stream) ReassemblyComplete(ac reassembly.AssemblerContext) bool {
	if cut, ok := s.w.ageFlush[vsync.CurrentThread()]; ok && !s.newest.Before(cut) {
		s.w.fail("closed-by-age-flush-after-newer-data", fmt.Sprintf("stream of connection %s was completed by FlushCloseOlderThan(%s) although it had been handed data seen at %s", s.key[:2], cut.Sub(t0), s.newest.Sub(t0)))
	}
	s.in++
	if s.in != 1 {
		s.w.fail("callbacks-overlap", "ReassemblyComplete entered while another callback of the same stream is running")
	}
	s.complete++
	if s.complete > 1 {
		s.w.fail("completed-twice", "ReassemblyComplete called twice on one stream")
	}
	vsync.Yield("Complete")
	s.in--
	return true
}

func keyName(key, dir int) string { return fmt.Sprintf("K%d/d%d", key, dir) }
func keyOffset(k string) int {
	// distinct byte alphabets per (key, dir): K0/d0 -> a.., K0/d1 -> e.., K1/d0 -> i..
	key, _ := strconv.Atoi(k[1:2])
	dir, _ := strconv.Atoi(k[4:5])
	return (key*2 + dir) * n
}
func unshift(b []byte, off int) []byte {
	o := make([]byte, len(b))
	for i := range b {
		o[i] = b[i] - byte(off)
	}
	return o
}

type factory struct{ w *world }

func (f factory) New(netFlow, tcpFlow gopacket.Flow, tcp *layers.TCP, ac reassembly.AssemblerContext) reassembly.Stream {
	vsync.Yield("New")
	key := -1
	src := netFlow.Src().Raw()
	if len(src) == 4 {
		key = int(src[3])
	}
	if wk := f.w.sc.waitKeyPlus1 - 1; wk >= 0 && (key == wk || key == 100+wk) && vsync.Exploring() {
		vsync.WaitFor("StreamFactory.New waiting for the other assembler to finish", func() bool { return f.w.finished[0] })
	}
	if key >= 100 {
		key -= 100
	}
	name := keyName(key, 0)
	s := &stream{w: f.w, key: name}
	for d := 0; d < 2; d++ {
		s.dirs[d] = &judgedDir{dir: tm.NewDir(n), judged: f.w.single[keyName(key, d)]}
	}
	f.w.streams = append(f.w.streams, s)
	return s
}

type actx struct{ ci gopacket.CaptureInfo }

func (a *actx) GetCaptureInfo() gopacket.CaptureInfo { return a.ci }

var t0 = time.Unix(1_000_000, 0)

func flows(key, dir int) gopacket.Flow {
	a, b := []byte{10, 0, 0, byte(key)}, []byte{10, 0, 1, byte(100 + key)}
	if dir == 1 {
		return gopacket.NewFlow(layers.EndpointIPv4, b, a)
	}
	return gopacket.NewFlow(layers.EndpointIPv4, a, b)
}

func (w *world) feed(a *reassembly.Assembler, p pkt, ts time.Time) {
	switch p.k {
	case oFlushOlderMid:
		cut := t0.Add(7 * time.Second)
		w.ageFlush[vsync.CurrentThread()] = cut
		a.FlushCloseOlderThan(cut)
		delete(w.ageFlush, vsync.CurrentThread())
	case oFlushOlder:
		a.FlushCloseOlderThan(t0.Add(time.Hour))
	case oFlushAll:
		a.FlushAll()
	default:
		sg := p.ev.Segment(uint32(1000*(p.dir+1)-100*p.key), n)
		off := (p.key*2 + p.dir) * n
		pl := make([]byte, len(sg.Payload))
		for i := range pl {
			pl[i] = sg.Payload[i] + byte(off)
		}
		t := &layers.TCP{SrcPort: layers.TCPPort(1 + p.dir), DstPort: layers.TCPPort(2 - p.dir), Seq: sg.Seq, SYN: sg.SYN, FIN: sg.FIN, RST: sg.RST}
		t.Payload = pl
		t.SetInternalPortsForTesting()
		// the judged stream's sender model learns what arrived
		for _, s := range w.streams {
			if s.key == keyName(p.key, 0) && s.complete == 0 {
				s.dirs[p.dir].dir.Arrive(p.ev)
			}
		}
		a.AssembleWithContext(flows(p.key, p.dir), t, &actx{gopacket.CaptureInfo{Timestamp: ts}})
	}
}

type result struct {
	viol    []string
	what    string
	outcome string
	res     *vsync.Result
}

func runOnce(sc *scenario, c *dfs.Chooser) result {
	w := &world{sc: sc, single: map[string]bool{}}
	// directions fed by exactly one thread (pre-steps count as that thread's prefix) are judged for order
	feeders := map[string]map[int]bool{}
	for ti, th := range sc.threads {
		for _, p := range th {
			if p.k == oSeg {
				k := keyName(p.key, p.dir)
				if feeders[k] == nil {
					feeders[k] = map[int]bool{}
				}
				feeders[k][ti] = true
			}
		}
	}
	flusher := false
	for _, th := range sc.threads {
		for _, p := range th {
			if p.k != oSeg {
				flusher = true
			}
		}
	}
	for k, f := range feeders {
		w.single[k] = len(f) == 1 && !flusher
	}
	w.pool = reassembly.NewStreamPool(factory{w})
	for range sc.threads {
		w.asms = append(w.asms, reassembly.NewAssembler(w.pool))
	}
	for i, p := range sc.pre {
		w.feed(w.asms[0], p, t0.Add(time.Duration(i)*time.Second))
	}
	w.finished = make([]bool, len(sc.threads))
	w.ageFlush = map[int]time.Time{}
	var bodies []func()
	for ti, th := range sc.threads {
		ti, th := ti, th
		bodies = append(bodies, func() {
			for i, p := range th {
				w.feed(w.asms[ti], p, t0.Add(time.Duration(10+ti*10+i)*time.Second))
			}
			w.finished[ti] = true
		})
	}
	res := vsync.Run(c, 1500, bodies)
	out := result{res: res}
	if res.Panic != nil {
		k, site := report.PanicKey(res.Panic, res.PanicStack)
		w.fail(k, fmt.Sprintf("thread T%d panicked: %v at %s", res.PanicThread, res.Panic, site))
	} else if res.Deadlock {
		w.fail("deadlock", "no thread enabled: "+strings.Join(res.Blocked, ", "))
	} else if res.Livelock {
		w.fail("livelock", "more than 1500 scheduling steps")
	} else {
		// sequential epilogue: everything that is still open is flushed
		func() {
			defer func() {
				if r := recover(); r != nil {
					w.fail("panic-in-final-flush|"+fmt.Sprint(r), fmt.Sprint(r))
				}
			}()
			for _, a := range w.asms {
				a.FlushAll()
			}
		}()
		perKey := map[string]int{}
		for _, s := range w.streams {
			if s.calls > 0 && s.complete != 1 {
				w.fail("kept-stream-not-completed-once", fmt.Sprintf("stream of %s received %d data callbacks and %d completions", s.key, s.calls, s.complete))
			}
			if s.calls > 0 || s.complete > 0 {
				perKey[s.key[:2]]++
			}
		}
		_ = perKey
		// (pool emptiness and page counts after the final flush are C11's clauses, not C12's: not judged here)
	}
	out.viol, out.what = w.viol, w.what
	var sb strings.Builder
	for _, s := range w.streams {
		fmt.Fprintf(&sb, "%s:%d/%d/%d/%d;", s.key, s.calls, s.complete, s.dirs[0].inst.Pos, s.dirs[1].inst.Pos)
	}
	out.outcome = sb.String() + fmt.Sprint(len(w.viol))
	return out
}

func main() {
	r := report.New("C12", "model_checking")
	scs := scenarios()
	if rp := os.Getenv("VERIF_REPLAY"); rp != "" {
		var f struct {
			Replay struct {
				Package  string `json:"package"`
				Scenario string `json:"scenario"`
				Schedule []int  `json:"schedule"`
			} `json:"replay"`
		}
		report.ReadJSON(rp, &f)
		if f.Replay.Package != "reassembly" {
			os.Exit(0)
		}
		for i := range scs {
			if scs[i].name == f.Replay.Scenario {
				var res result
				dfs.ExploreFrom(f.Replay.Schedule, -1, 1, nil, func(c *dfs.Chooser) { res = runOnce(&scs[i], c) })
				fmt.Println("replayed", scs[i].name, "choices", f.Replay.Schedule, "threads run:", res.res.Trace)
				for _, v := range res.viol {
					fmt.Println("REPRODUCED", v, res.what)
				}
				if len(res.viol) > 0 {
					os.Exit(1)
				}
				fmt.Println("no violation reproduced")
			}
		}
		os.Exit(0)
	}
	bounds := []int{0, 1, 2}
	if r.Thorough() {
		bounds = []int{0, 1, 2, 3}
	}
	var execs, points, replays int64
	outcomes := map[string]struct{}{}
	per := map[string]any{}
	var samples []any
	boundDone := bounds[len(bounds)-1]
	for si := range scs {
		sc := &scs[si]
		var stLast dfs.Stats
		for _, b := range bounds {
			if r.Expired() {
				if b-1 < boundDone {
					boundDone = b - 1
				}
				break
			}
			cnt := int64(0)
			newViol := 0
			// once a bound has produced unlisted violations there is nothing to gain from
			// finishing it or from higher bounds: the check already fails (the run is then
			// reported as not exhaustive)
			stop := func() bool { return newViol >= 20 || r.Expired() }
			st := dfs.Explore(b, 0, stop, func(c *dfs.Chooser) {
				res := runOnce(sc, c)
				cnt++
				outcomes[sc.name+"|"+res.outcome] = struct{}{}
				for _, v := range res.viol {
					if !r.IsKnown("c12|reassembly|" + v + "|" + sc.name) {
						newViol++
					}
					r.Violation("c12|reassembly|"+v+"|"+sc.name, fmt.Sprintf("%s; scenario %s threads %v pre %v; preemption bound %d; choices %v", res.what, sc.name, sc.threads, sc.pre, b, c.Trace()),
						int64(b)*1_000_000+int64(len(c.Trace())), map[string]any{"package": "reassembly", "scenario": sc.name, "schedule": c.Trace(), "threads_run": res.res.Trace})
				}
				if cnt%251 == int64(r.Seed%251) {
					// replay self-check: the same choices must give the same observation
					var res2 result
					dfs.ExploreFrom(c.Trace(), -1, 1, nil, func(c2 *dfs.Chooser) { res2 = runOnce(sc, c2) })
					replays++
					if res2.outcome != res.outcome || fmt.Sprint(res2.res.Trace) != fmt.Sprint(res.res.Trace) {
						fmt.Printf("INTERNAL ERROR: replay of %v in %s diverged: %q vs %q\n", c.Trace(), sc.name, res.outcome, res2.outcome)
						os.Exit(2)
					}
				}
			})
			fmt.Printf("# %s bound %d: %d executions, %d choice points, max depth %d, capped=%v\n", sc.name, b, st.Executions, st.Points, st.MaxDepth, st.Capped)
			if st.Capped {
				r.Exhaustive = false
				if b-1 < boundDone {
					boundDone = b - 1
				}
			}
			if st.Divergences > 0 {
				fmt.Println("INTERNAL ERROR: replayed prefix diverged")
				os.Exit(2)
			}
			stLast = st
			if newViol > 0 {
				execs += st.Executions
				points += st.Points
				break
			}
			if b == bounds[len(bounds)-1] || st.Capped {
				execs += st.Executions
				points += st.Points
			}
		}
		per[sc.name] = map[string]any{"executions_at_highest_bound": stLast.Executions, "max_choice_points": stLast.MaxDepth, "threads": fmt.Sprint(sc.threads), "pre": fmt.Sprint(sc.pre)}
		samples = append(samples, map[string]any{"scenario": sc.name, "threads": fmt.Sprint(sc.threads)})
	}
	r.Coverage["states"] = execs
	r.Coverage["transitions"] = points
	r.Coverage["traces_validated_against_impl"] = execs
	r.Coverage["traces_replayed_twice_identical"] = replays
	r.Coverage["preemption_bound_completed"] = boundDone
	r.Coverage["scenarios"] = per
	r.Coverage["distinct_outcomes"] = len(outcomes)
	r.Coverage["samples"] = samples
	r.Coverage["explanation"] = "reassembly compiled with its sync import rewritten to the vsync shim; each scenario's threads (one Assembler each on a shared StreamPool, keys forced to collide) run under a cooperative scheduler with scheduling points before every Mutex/RWMutex operation and inside the harness's stream callbacks; all schedules with at most the stated number of preemptions are executed (iteratively from bound 0). states = executions at the highest completed bound, transitions = scheduling choices."
	r.Assumptions = []string{"sequential consistency; unsynchronised accesses are the business of the separate free-running -race pass", "RWMutex writer preference is not modelled (a blocked operation is simply delayed)", "order oracle only for directions fed by one thread and not raced by a flusher"}
	r.Finish()
}
