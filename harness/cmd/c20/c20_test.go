// C20: ReaderStream returns exactly the delivered bytes and never wedges the
// assembler. Quiescence-driven exploration inside testing/synctest bubbles.
package main

import (
	"errors"
	"fmt"
	"io"
	"os"
	"runtime"
	"sync"
	"sync/atomic"
	"testing"

	"github.com/gopacket/gopacket/tcpassembly"
	"github.com/gopacket/gopacket/tcpassembly/tcpreader"

	"verif/engine/bubble"
	"verif/engine/dfs"
	"verif/engine/report"
)

// ---- alphabet -----------------------------------------------------------------

type entry struct{ n, skip int } // bytes length, Skip

type consumerOp int

const (
	opRead1 consumerOp = iota
	opRead2
	opRead8
	opClose
	opDrain // read(8) until EOF (bounded), counted as one call
)

func (o consumerOp) String() string {
	return [...]string{"Read(1)", "Read(2)", "Read(8)", "Close", "DrainToEOF"}[o]
}

type scenario struct {
	batches    [][]entry
	prog       []consumerOp
	lossErrors bool
	endFlag    bool // the last entry of the last batch carries End (as for a FIN/RST segment with payload)
}

func (s scenario) String() string {
	e := ""
	if s.endFlag {
		e = " (last entry has End set)"
	}
	return fmt.Sprintf("deliveries=%v%s then Complete; consumer=%v lossErrors=%v", s.batches, e, s.prog, s.lossErrors)
}

func entryKinds(thorough bool) []entry {
	ks := []entry{{1, 0}, {3, 0}, {0, 0}, {1, 2}, {3, 2}, {0, 2}, {3, -1}}
	if thorough {
		ks = append(ks, entry{1, -1}, entry{0, -1})
	}
	return ks
}

func allBatches(thorough bool) [][]entry {
	ks := entryKinds(thorough)
	// the empty batch first: Reassembled may be called with no entries at all (the stock
	// assembler never does, the Stream interface allows it)
	out := [][]entry{{}}
	for _, a := range ks {
		out = append(out, []entry{a})
	}
	for _, a := range ks {
		for _, b := range ks {
			out = append(out, []entry{a, b})
		}
	}
	return out
}

func allHistories(thorough bool) [][][]entry {
	bs := allBatches(thorough)
	out := [][][]entry{{}}
	for _, a := range bs {
		out = append(out, [][]entry{a})
	}
	for _, a := range bs {
		for _, b := range bs {
			out = append(out, [][]entry{a, b})
		}
	}
	if thorough {
		// three batches of single entries
		ks := entryKinds(false)
		for _, a := range ks {
			for _, b := range ks {
				for _, c := range ks {
					out = append(out, [][]entry{{a}, {b}, {c}})
				}
			}
		}
	}
	return out
}

func allPrograms(thorough bool) [][]consumerOp {
	maxReads := 3
	if thorough {
		maxReads = 4
	}
	reads := []consumerOp{opRead1, opRead2, opRead8}
	terminals := [][]consumerOp{{opDrain}, {opClose}, {opClose, opClose}, {opDrain, opRead8}, {opClose, opRead8}, {opDrain, opClose}}
	var prefixes [][]consumerOp
	var rec func(p []consumerOp)
	rec = func(p []consumerOp) {
		prefixes = append(prefixes, append([]consumerOp(nil), p...))
		if len(p) == maxReads {
			return
		}
		for _, r := range reads {
			rec(append(p, r))
		}
	}
	rec(nil)
	var out [][]consumerOp
	for _, p := range prefixes {
		for _, t := range terminals {
			out = append(out, append(append([]consumerOp(nil), p...), t...))
		}
	}
	return out
}

// ---- one execution -----------------------------------------------------------

type obs struct {
	read      []byte
	lost      int
	lostAt    []int // number of bytes read when DataLost was returned
	afterEnd  []string
	badReturn string
	drainCap  bool
}

type result struct {
	deadlock   bool
	panicWhat  string
	panicStack []byte
	viol       []string
	trace      []int
	outcome    string
}

const drainMax = 64

func runOnce(t *testing.T, sc scenario, c *dfs.Chooser) (res result) {
	// expected stream
	var want []byte
	next := byte(1)
	type built struct {
		rs   []tcpassembly.Reassembly
		orig [][]byte
	}
	var bl []built
	var gapEntries []int // stream offset of each entry with Skip != 0 (all of them), -1 length marker for empty ones
	var gapNonEmpty []int
	for _, b := range sc.batches {
		var x built
		for _, e := range b {
			bs := make([]byte, e.n)
			for i := range bs {
				bs[i] = next
				next++
			}
			if e.skip != 0 {
				gapEntries = append(gapEntries, len(want))
				if e.n > 0 {
					gapNonEmpty = append(gapNonEmpty, len(want))
				}
			}
			want = append(want, bs...)
			x.orig = append(x.orig, append([]byte(nil), bs...))
			x.rs = append(x.rs, tcpassembly.Reassembly{Bytes: bs, Skip: e.skip})
		}
		bl = append(bl, x)
	}
	if sc.endFlag && len(bl) > 0 {
		if last := bl[len(bl)-1].rs; len(last) > 0 {
			last[len(last)-1].End = true
		}
	}
	var o obs
	var asmPanic, conPanic any
	var asmStack, conStack []byte
	asmSteps := len(bl) + 1
	conSteps := len(sc.prog)
	var asmLeft, conLeft bool
	sawEOF, closed := false, false
	dl, rp := bubble.Run(t, func() {
		rs := tcpreader.NewReaderStream()
		rs.LossErrors = sc.lossErrors
		asm := bubble.NewActor("assembler")
		con := bubble.NewActor("consumer")
		ai, ci := 0, 0
		doRead := func(k int) (int, error) {
			buf := make([]byte, k)
			n, err := rs.Read(buf)
			o.read = append(o.read, buf[:n]...)
			if err == tcpreader.DataLost {
				o.lost++
				o.lostAt = append(o.lostAt, len(o.read))
				if n != 0 {
					o.badReturn = "Read returned data together with DataLost"
				}
			} else if err == io.EOF {
				if n != 0 {
					o.badReturn = "Read returned data together with io.EOF"
				}
			} else if err != nil {
				o.badReturn = "Read returned unexpected error " + err.Error()
			} else if n == 0 {
				o.badReturn = "Read returned 0, nil"
			}
			if sawEOF || closed {
				o.afterEnd = append(o.afterEnd, fmt.Sprintf("%d,%v", n, err))
			}
			if err == io.EOF {
				sawEOF = true
			}
			return n, err
		}
		for {
			var idle []*bubble.Actor
			if !asm.InCall && ai < asmSteps && asm.Panic == nil {
				idle = append(idle, asm)
			}
			if !con.InCall && ci < conSteps && con.Panic == nil {
				idle = append(idle, con)
			}
			if len(idle) == 0 {
				break
			}
			a := idle[c.Choose(len(idle))]
			if a == asm {
				k := ai
				ai++
				if k < len(bl) {
					asm.Start(func() {
						rs.Reassembled(bl[k].rs)
						// the real assembler re-uses the slices once Reassembled returns
						for _, r := range bl[k].rs {
							for i := range r.Bytes[:cap(r.Bytes)] {
								r.Bytes[:cap(r.Bytes)][i] = 0xEE
							}
						}
						// ... and the Reassembly objects themselves: its next batch, for whatever
						// connection, is written into the same elements
						for i := range bl[k].rs {
							bl[k].rs[i] = tcpassembly.Reassembly{Bytes: []byte{0xE1, 0xE2, 0xE3, 0xE4}}
						}
					})
				} else {
					asm.Start(func() { rs.ReassemblyComplete() })
				}
			} else {
				op := sc.prog[ci]
				ci++
				con.Start(func() {
					switch op {
					case opRead1:
						doRead(1)
					case opRead2:
						doRead(2)
					case opRead8:
						doRead(8)
					case opClose:
						if err := rs.Close(); err != nil {
							o.badReturn = "Close returned " + err.Error()
						}
						closed = true
					case opDrain:
						for i := 0; ; i++ {
							if i >= drainMax {
								o.drainCap = true
								return
							}
							if _, err := doRead(8); err == io.EOF {
								return
							}
						}
					}
				})
			}
		}
		asmPanic, asmStack, conPanic, conStack = asm.Panic, asm.Stack, con.Panic, con.Stack
		asmLeft = asm.InCall || (ai < asmSteps && asm.Panic == nil)
		conLeft = con.InCall || (ci < conSteps && con.Panic == nil)
		asm.Stop()
		con.Stop()
	})
	res.trace = c.Trace()
	if rp != nil {
		res.viol = append(res.viol, fmt.Sprintf("harness|root-panic|%v", rp))
	}
	if asmPanic != nil {
		res.panicWhat, res.panicStack = fmt.Sprint("assembler side: ", asmPanic), asmStack
		key, _ := report.PanicKey(asmPanic, asmStack)
		res.viol = append(res.viol, key)
	}
	if conPanic != nil {
		res.panicWhat, res.panicStack = fmt.Sprint("consumer side: ", conPanic), conStack
		key, _ := report.PanicKey(conPanic, conStack)
		res.viol = append(res.viol, key)
	}
	if (dl || asmLeft || conLeft) && asmPanic == nil && conPanic == nil {
		res.deadlock = true
		who := ""
		if asmLeft {
			who += "assembler"
		}
		if conLeft {
			who += "+consumer"
		}
		res.viol = append(res.viol, "deadlock|"+who+" blocked forever")
	}
	// bytes: what was read is a prefix of what was delivered; the whole of it after a drain to EOF
	if len(o.read) > len(want) || string(o.read) != string(want[:len(o.read)]) {
		res.viol = append(res.viol, "bytes|read bytes are not a prefix of the delivered bytes")
	}
	drained := false
	for _, op := range sc.prog {
		if op == opDrain {
			drained = true
		}
		if op == opClose {
			break
		}
	}
	if drained && !res.deadlock && asmPanic == nil && conPanic == nil {
		if o.drainCap {
			res.viol = append(res.viol, "livelock|Read never reports EOF (no progress in 64 reads)")
		} else if string(o.read) != string(want) {
			res.viol = append(res.viol, "bytes|drain to EOF did not return all delivered bytes")
		}
		if sc.lossErrors && !o.drainCap {
			// one DataLost per gap, reported before the first byte after the gap
			if o.lost != len(gapEntries) {
				res.viol = append(res.viol, fmt.Sprintf("loss|DataLost reported %d times for %d gaps (%d in front of data)", o.lost, len(gapEntries), len(gapNonEmpty)))
			} else {
				for i := range o.lostAt {
					if o.lostAt[i] != gapEntries[i] {
						res.viol = append(res.viol, "loss|DataLost reported at the wrong stream position")
						break
					}
				}
			}
		}
	}
	if !sc.lossErrors && o.lost != 0 {
		res.viol = append(res.viol, "loss|DataLost returned although LossErrors is off")
	}
	if o.badReturn != "" {
		res.viol = append(res.viol, "return|"+o.badReturn)
	}
	for _, a := range o.afterEnd {
		if a != "0,EOF" {
			res.viol = append(res.viol, "after-end|Read after EOF/Close returned "+a+" instead of 0, io.EOF")
			break
		}
	}
	res.outcome = fmt.Sprintf("%x|%d|%v|%v|%v", o.read, o.lost, res.deadlock, o.afterEnd, len(res.viol))
	return
}

var errStop = errors.New("stop")

func TestExplore(t *testing.T) {
	r := report.New("C20", "model_checking")
	hs := allHistories(r.Thorough())
	ps := allPrograms(r.Thorough())
	var scen []scenario
	for _, le := range []bool{false, true} {
		for _, h := range hs {
			for _, p := range ps {
				scen = append(scen, scenario{h, p, le, false})
			}
		}
	}
	// the same with End set on the last delivered entry (appended, so that earlier replay indices stay valid)
	for _, le := range []bool{false, true} {
		for _, h := range hs {
			if len(h) == 0 {
				continue
			}
			for _, p := range ps {
				scen = append(scen, scenario{h, p, le, true})
			}
		}
	}
	if rp := os.Getenv("VERIF_REPLAY"); rp != "" {
		replay(t, rp, scen)
		return
	}
	var execs, points, replays, replayMismatch int64
	var mu sync.Mutex
	outcomes := map[string]struct{}{}
	var samples []any
	nshard := runtime.NumCPU()
	var idx int64 = -1
	var wg sync.WaitGroup
	maxDepth := 0
	for s := 0; s < nshard; s++ {
		wg.Add(1)
		go func() {
			defer wg.Done()
			localOut := map[string]struct{}{}
			for {
				i := atomic.AddInt64(&idx, 1)
				if i >= int64(len(scen)) || r.Expired() {
					break
				}
				sc := scen[i]
				st := dfs.Explore(-1, 0, nil, func(c *dfs.Chooser) {
					res := runOnce(t, sc, c)
					localOut[res.outcome] = struct{}{}
					for _, v := range res.viol {
						r.Violation(v, fmt.Sprintf("%s; scenario: %s; schedule %v", res.panicWhat, sc, res.trace), i,
							map[string]any{"scenario_index": i, "scenario": sc.String(), "schedule": res.trace})
					}
					// replay self-check on a deterministic subset: same schedule, same outcome
					if (i+int64(len(res.trace)))%97 == int64(r.Seed%97) {
						c2 := &dfs.Chooser{}
						*c2 = dfs.Chooser{}
						res2 := replayTrace(t, sc, res.trace)
						atomic.AddInt64(&replays, 1)
						if res2.outcome != res.outcome {
							atomic.AddInt64(&replayMismatch, 1)
						}
					}
				})
				atomic.AddInt64(&execs, st.Executions)
				atomic.AddInt64(&points, st.Points)
				mu.Lock()
				if st.MaxDepth > maxDepth {
					maxDepth = st.MaxDepth
				}
				if len(samples) < 4 && i%1000 == 7 {
					samples = append(samples, sc.String())
				}
				mu.Unlock()
			}
			mu.Lock()
			for k := range localOut {
				outcomes[k] = struct{}{}
			}
			mu.Unlock()
		}()
	}
	wg.Wait()
	if replayMismatch > 0 && r.NumViolationClasses() == 0 {
		fmt.Printf("INTERNAL ERROR: %d of %d replayed schedules gave a different outcome (harness does not own its nondeterminism)\n", replayMismatch, replays)
		os.Exit(2)
	}
	r.Coverage["states"] = execs
	r.Coverage["transitions"] = points
	r.Coverage["traces_validated_against_impl"] = execs
	r.Coverage["traces_replayed_twice_identical"] = replays
	r.Coverage["scenarios"] = len(scen)
	r.Coverage["delivery_histories"] = len(hs)
	r.Coverage["consumer_programs"] = len(ps)
	r.Coverage["distinct_outcomes"] = len(outcomes)
	r.Coverage["max_schedule_depth"] = maxDepth
	r.Coverage["samples"] = samples
	r.Coverage["explanation"] = "states = complete executions (stateless search: every explored trace is an execution of the real ReaderStream inside a synctest bubble); transitions = scheduling choices taken. All delivery histories x all consumer programs x LossErrors on/off x all start orders of the two actors at every quiescent point."
	r.Assumptions = []string{"testing/synctest: Wait returns exactly when all other bubble goroutines are durably blocked; a bubble ending with blocked goroutines is reported as deadlock by the runtime", "between rendezvous each side touches only memory it owns (free-running -race pass is separate)", "batches of <=2 entries, <=2 batches (thorough: <=3), <=3 reads (thorough: 4) before the terminal op"}
	r.Finish()
}

func replayTrace(t *testing.T, sc scenario, trace []int) result {
	var res result
	dfs.ExploreFrom(trace, -1, 1, nil, func(c *dfs.Chooser) { res = runOnce(t, sc, c) })
	return res
}

func replay(t *testing.T, path string, scen []scenario) {
	var f struct {
		Replay struct {
			Index    int64 `json:"scenario_index"`
			Schedule []int `json:"schedule"`
		} `json:"replay"`
	}
	report.ReadJSON(path, &f)
	sc := scen[f.Replay.Index]
	fmt.Println("replaying:", sc, "schedule", f.Replay.Schedule)
	res := replayTrace(t, sc, f.Replay.Schedule)
	for _, v := range res.viol {
		fmt.Println("REPRODUCED", v, res.panicWhat)
	}
	if len(res.viol) > 0 {
		os.Exit(1)
	}
	fmt.Println("no violation reproduced")
	os.Exit(0)
}
