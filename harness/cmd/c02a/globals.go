// C02, hidden shared state: "what decoding returns depends only on the bytes, the first layer
// type and the options" - so decoding and reading packets must leave no trace in package-level
// state that a later decode could read. Every package-level variable of the packages gopacket
// and layers (accessors generated from the working tree by mkoverlay, so a variable added by a
// change under test is covered) is rendered deeply - unexported fields included - before and
// after the cases of this worker; after a warm-up over every unmodified seed (one-time lazy
// initialisation is legitimate) no variable may change any more. After every case the memory of
// every small variable is compared byte for byte (this sees counters, memo words, slice and map
// headers); every 256 cases the same for the large tables plus a deep rendering of the small
// variables (contents of maps and of pointed-to values); every 8192 cases a deep rendering of
// the large tables.
package main

import (
	"bytes"
	"fmt"
	"hash/fnv"
	"reflect"
	"sort"
	"strings"
	"unsafe"

	"github.com/gopacket/gopacket"
	"github.com/gopacket/gopacket/layers"

	"verif/engine/corpus"
	"verif/engine/dspace"
	"verif/engine/enum"
	"verif/engine/sig"
)

type gvar struct {
	name string
	ptr  any
	hash uint64
	text string // rendering (kept for small variables only: the report shows what changed)
	big  bool
	mem  []byte // the variable's own memory (shallow)
	copy []byte
}

var (
	gvars      []*gvar
	gWarm      bool
	gSince     int
	globalSkip = map[string]bool{"sync.Pool": true, "sync.Mutex": true, "sync.RWMutex": true, "sync.Once": true, "noCopy": true}
)

func renderGlobal(p any) string { return sig.Deep(p, globalSkip) }

func h(s string) uint64 {
	f := fnv.New64a()
	f.Write([]byte(s))
	return f.Sum64()
}

func initGlobals(sp *dspace.Spaces) {
	add := func(pkg string, m map[string]any) {
		var names []string
		for n := range m {
			names = append(names, n)
		}
		sort.Strings(names)
		for _, n := range names {
			gvars = append(gvars, &gvar{name: pkg + "." + n, ptr: m[n]})
		}
	}
	add("gopacket", gopacket.VerifGlobals())
	add("layers", layers.VerifGlobals())
	// warm-up: every unmodified seed once, with the accessor suite
	for _, t := range sp.TSeeds {
		func() {
			defer func() { recover() }()
			for _, lazy := range []bool{false, true} {
				p := gopacket.NewPacket(corpus.Exact(t.Data), t.First.Dec, gopacket.DecodeOptions{Lazy: lazy, DecodeStreamsAsDatagrams: true})
				attach(p)
				for _, a := range accessors {
					func() {
						defer func() { recover() }()
						a.f(p)
					}()
				}
			}
		}()
	}
	for _, g := range gvars {
		s := renderGlobal(g.ptr)
		g.hash = h(s)
		v := reflect.ValueOf(g.ptr)
		size := int(v.Elem().Type().Size())
		g.mem = unsafe.Slice((*byte)(v.UnsafePointer()), size)
		g.copy = append([]byte(nil), g.mem...)
		if len(s) > 4096 || size > 4096 {
			g.big = true
		} else {
			g.text = s
		}
	}
	gWarm = true
}

// checkGlobals compares the package-level state with the baseline. level 0: memory of the small
// variables; 1: memory of all, deep rendering of the small ones; 2: deep rendering of all.
func checkGlobals(sp *dspace.Spaces, w *enum.Worker, level int) {
	if !gWarm {
		initGlobals(sp)
		return
	}
	for _, g := range gvars {
		if g.big && level == 0 {
			continue
		}
		changed := !bytes.Equal(g.mem, g.copy)
		deep := changed || (level >= 1 && !g.big) || level >= 2
		if !deep {
			continue
		}
		s := renderGlobal(g.ptr)
		x := h(s)
		if x == g.hash && !changed {
			continue
		}
		what := fmt.Sprintf("package-level variable %s changed while packets were decoded and read", g.name)
		if !g.big {
			if g.text != s {
				what += ": " + diffLine(g.text, s)
			} else {
				what += " (its memory differs: a pointer, slice header or padding)"
			}
			g.text = s
		} else {
			what += " (large table)"
		}
		if x != g.hash || !sameButPointers(g) {
			w.Violation("c02|package-level-state-changes|"+g.name, what)
		}
		g.hash = x
		copy(g.copy, g.mem)
	}
}

// sameButPointers: the memory changed but the deep rendering did not - e.g. a slice that was
// re-allocated with equal contents. That is still a write to shared state; it is reported.
func sameButPointers(g *gvar) bool { return false }

func globalsAfterCase(sp *dspace.Spaces, w *enum.Worker) {
	gSince++
	level := 0
	if gSince%8192 == 0 {
		level = 2
	} else if gSince%256 == 0 {
		level = 1
	}
	checkGlobals(sp, w, level)
}

var _ = strings.TrimSpace
