// C02 part a: decoding is deterministic and side-effect free (histories of decodes, input
// buffer integrity under a read-only mapping, accessors do not change an eager packet).
package main

import (
	"bytes"
	"fmt"
	"runtime"
	"runtime/debug"
	"strings"
	"syscall"
	"unsafe"

	"github.com/gopacket/gopacket"
	"github.com/gopacket/gopacket/layers"

	"verif/engine/corpus"
	"verif/engine/dspace"
	"verif/engine/enum"
	"verif/engine/report"
	"verif/engine/sig"
)

type setter interface {
	SetNetworkLayerForChecksum(gopacket.NetworkLayer) error
}

func attach(p gopacket.Packet) {
	if nl := p.NetworkLayer(); nl != nil {
		for _, l := range p.Layers() {
			if s, ok := l.(setter); ok {
				s.SetNetworkLayerForChecksum(nl)
			}
		}
	}
}

var classes = []gopacket.LayerClass{layers.LayerClassIPNetwork, layers.LayerClassIPTransport}

// the read-only accessor suite; each entry is run separately so that a change can be attributed
var accessors = []struct {
	name string
	f    func(p gopacket.Packet)
}{
	{"Layers/Layer/LayerClass", func(p gopacket.Packet) {
		for _, l := range p.Layers() {
			p.Layer(l.LayerType())
			l.LayerContents()
			l.LayerPayload()
		}
		for _, c := range classes {
			p.LayerClass(c)
		}
	}},
	{"special layers and flows", func(p gopacket.Packet) {
		if l := p.LinkLayer(); l != nil {
			l.LinkFlow()
		}
		if l := p.NetworkLayer(); l != nil {
			l.NetworkFlow()
		}
		if l := p.TransportLayer(); l != nil {
			l.TransportFlow()
		}
		if l := p.ApplicationLayer(); l != nil {
			l.Payload()
		}
		p.ErrorLayer()
	}},
	{"String", func(p gopacket.Packet) { _ = p.String() }},
	{"Dump", func(p gopacket.Packet) { _ = p.Dump() }},
	{"LayerGoString", func(p gopacket.Packet) {
		for _, l := range p.Layers() {
			gopacket.LayerGoString(l)
		}
	}},
	{"VerifyChecksums", func(p gopacket.Packet) { p.VerifyChecksums() }},
}

var deepSkip = map[string]bool{"stack": true}

// snapshot: every field of every layer (exported and unexported) and the packet bytes
func snapshot(p gopacket.Packet) (s string) {
	defer func() {
		if r := recover(); r != nil {
			s = fmt.Sprint("PANIC:", r)
		}
	}()
	var b strings.Builder
	fmt.Fprintf(&b, "data=%x trunc=%v\n", p.Data(), p.Metadata().Truncated)
	for i, l := range p.Layers() {
		fmt.Fprintf(&b, "%d %v %s\n", i, l.LayerType(), sig.Deep(l, deepSkip))
	}
	return b.String()
}

func diffLine(a, b string) string {
	la, lb := strings.Split(a, "\n"), strings.Split(b, "\n")
	for i := range la {
		if i >= len(lb) || la[i] != lb[i] {
			x := la[i]
			y := ""
			if i < len(lb) {
				y = lb[i]
			}
			k := 0
			for k < len(x) && k < len(y) && x[k] == y[k] {
				k++
			}
			s := max(0, k-60)
			return fmt.Sprintf("line %d: ...%.140s  VS  ...%.140s", i, x[s:], y[min(s, len(y)):])
		}
	}
	return "?"
}

func fieldAt(a, b string) string {
	i := 0
	for i < len(a) && i < len(b) && a[i] == b[i] {
		i++
	}
	j := min(i, len(a)-1)
	for j > 0 && a[j] != '=' {
		j--
	}
	k := j
	for k > 0 && a[k-1] != ' ' && a[k-1] != '{' && a[k-1] != ',' && a[k-1] != '&' && a[k-1] != '\n' {
		k--
	}
	if k < j {
		return a[k:j]
	}
	return "?"
}

// ---- (b1) accessors do not change an eager packet -----------------------------------

func accessorSnapshots(c dspace.Case, w *enum.Worker) {
	for _, dsad := range []bool{false, true} {
		w.Guard("harness", func() {
			p := gopacket.NewPacket(corpus.Exact(c.Data), c.First.Dec, gopacket.DecodeOptions{DecodeStreamsAsDatagrams: dsad})
			attach(p)
			before := snapshot(p)
			for _, a := range accessors {
				func() {
					defer func() { recover() }() // panics are C01's subject
					a.f(p)
				}()
				after := snapshot(p)
				w.Count("accessor_runs", 1)
				if after != before {
					w.Violation("c02|accessor-changes-packet|"+a.name+"|"+fieldAt(before, after), fmt.Sprintf("%s changed the eager packet: %s", a.name, diffLine(before, after)))
					before = after
				}
			}
			w.OutcomeString(sig.TypeSeq(p))
		})
	}
}

// ---- (b2) the input buffer is never written: read-only mapping ----------------------------

type region struct {
	mem  []byte
	from int64
	offs []int
	lens []int
}

const batch = 256

var cur *region

func (r *region) release() {
	if r != nil && r.mem != nil {
		syscall.Mprotect(r.mem, syscall.PROT_READ|syscall.PROT_WRITE)
		syscall.Munmap(r.mem)
	}
}

func prepare(sp *dspace.Spaces, from, to int64) *region {
	r := &region{from: from}
	total := 0
	var datas [][]byte
	for i := from; i < to; i++ {
		d := sp.NeighCase(i).Data
		datas = append(datas, d)
		total += len(d) + 1
	}
	size := (total + 8191) &^ 4095
	mem, err := syscall.Mmap(-1, 0, size, syscall.PROT_READ|syscall.PROT_WRITE, syscall.MAP_ANON|syscall.MAP_PRIVATE)
	if err != nil {
		panic(err)
	}
	r.mem = mem
	off := 0
	for _, d := range datas {
		copy(mem[off:], d)
		r.offs = append(r.offs, off)
		r.lens = append(r.lens, len(d))
		off += len(d) + 1
	}
	if err := syscall.Mprotect(mem, syscall.PROT_READ); err != nil {
		panic(err)
	}
	return r
}

func (r *region) input(i int64) []byte {
	k := int(i - r.from)
	o, n := r.offs[k], r.lens[k]
	return r.mem[o : o+n : o+n]
}

func readOnlyInput(sp *dspace.Spaces, i int64, w *enum.Worker) {
	if cur == nil || i < cur.from || i >= cur.from+int64(len(cur.offs)) {
		cur.release()
		to := i + batch
		if to > sp.NeighLen() {
			to = sp.NeighLen()
		}
		cur = prepare(sp, i, to)
	}
	c := sp.NeighCase(i)
	in := cur.input(i)
	lo, hi := uintptr(unsafe.Pointer(unsafe.SliceData(cur.mem))), uintptr(unsafe.Pointer(unsafe.SliceData(cur.mem)))+uintptr(len(cur.mem))
	old := debug.SetPanicOnFault(true)
	defer debug.SetPanicOnFault(old)
	run := func(name string, f func()) {
		defer func() {
			r := recover()
			if r == nil {
				return
			}
			type addrer interface{ Addr() uintptr }
			if ae, ok := r.(addrer); ok {
				if a := ae.Addr(); a >= lo && a < hi {
					key, site := report.PanicKey(r, debug.Stack())
					key = strings.Replace(key, "panic|", "", 1)
					if j := strings.LastIndex(key, "|"); j > 0 {
						key = key[:j]
					}
					w.Violation("c02|write-into-input-buffer|"+key, fmt.Sprintf("%s stores into the caller's (read-only mapped) input buffer at %s", name, site))
					return
				}
			}
			// any other panic is C01/C19's subject
		}()
		f()
	}
	// with panic recovery on, a fault raised inside a decoder would be swallowed by the packet's
	// own recover and turned into a DecodeFailure layer: every configuration therefore also
	// runs with SkipDecodeRecovery, where the fault reaches the monitor
	for k := 0; k < 8; k++ {
		o := gopacket.DecodeOptions{NoCopy: true, Lazy: k&1 != 0, DecodeStreamsAsDatagrams: k&2 != 0, SkipDecodeRecovery: k&4 != 0}
		var p gopacket.Packet
		run("NewPacket(NoCopy)", func() { p = gopacket.NewPacket(in, c.First.Dec, o); p.Layers() })
		w.Count("readonly_runs", 1)
		if p == nil || o.SkipDecodeRecovery {
			continue // the accessors were run on the same layers in the recovery-on configuration
		}
		run("SetNetworkLayerForChecksum", func() { attach(p) })
		for _, a := range accessors {
			a := a
			run(a.name, func() { a.f(p) })
		}
	}
	runtime.KeepAlive(in)
}

// ---- (a) histories: an old packet is not disturbed by later decodes; same bytes, same packet ----

func pairs(K []dspace.Case, i int64, w *enum.Worker) {
	a, b := K[i/int64(len(K))], K[i%int64(len(K))]
	w.Guard("harness", func() {
		bufA, bufB := corpus.Exact(a.Data), corpus.Exact(b.Data)
		pA := gopacket.NewPacket(bufA, a.First.Dec, gopacket.DecodeOptions{DecodeStreamsAsDatagrams: true})
		s1 := snapshot(pA)
		pB := gopacket.NewPacket(bufB, b.First.Dec, gopacket.DecodeOptions{DecodeStreamsAsDatagrams: true})
		attach(pB)
		for _, ac := range accessors {
			func() {
				defer func() { recover() }()
				ac.f(pB)
			}()
		}
		w.Count("pairs", 1)
		if s := snapshot(pA); s != s1 {
			w.Violation("c02|earlier-packet-changed-by-later-decode|"+fieldAt(s1, s), fmt.Sprintf("packet A changed after decoding and reading packet B: %s", diffLine(s1, s)))
			return
		}
		pA2 := gopacket.NewPacket(corpus.Exact(a.Data), a.First.Dec, gopacket.DecodeOptions{DecodeStreamsAsDatagrams: true})
		if s := snapshot(pA2); s != s1 {
			w.Violation("c02|same-bytes-decode-differently-after-other-packets|"+fieldAt(s1, s), fmt.Sprintf("decoding A again after B gives a different packet: %s", diffLine(s1, s)))
			return
		}
		if !bytes.Equal(bufA, a.Data) || !bytes.Equal(bufB, b.Data) {
			w.Violation("c02|callers-buffer-modified", "the caller's input buffer differs from the pristine copy after decoding")
		}
	})
}

func main() {
	r := report.New("C02", "exploration")
	sp := dspace.Build(r.Thorough())
	var K []dspace.Case
	for i, t := range sp.TSeeds {
		K = append(K, dspace.Case{First: t.First, Data: t.Data, Seed: t.Name, SeedIdx: i})
	}
	phases := []enum.Phase{
		{Name: "accessors-do-not-change-the-packet", Len: sp.NeighLen(),
			Describe: func(i int64) any { return sp.NeighCase(i).Describe() },
			Run: func(i int64, w *enum.Worker) {
				if !gWarm {
					checkGlobals(sp, w, 2) // warm-up and baseline of the package-level state
				}
				accessorSnapshots(sp.NeighCase(i), w)
				globalsAfterCase(sp, w)
			}},
		{Name: "read-only-input", Len: sp.NeighLen(),
			Describe: func(i int64) any { return sp.NeighCase(i).Describe() },
			Run:      func(i int64, w *enum.Worker) { readOnlyInput(sp, i, w) }},
		{Name: "decode-histories", Len: int64(len(K)) * int64(len(K)),
			Describe: func(i int64) any {
				return map[string]any{"A": K[i/int64(len(K))].Describe(), "then_B": K[i%int64(len(K))].Describe()}
			},
			Run: func(i int64, w *enum.Worker) { pairs(K, i, w) }},
	}
	r.Coverage["rule"] = "accessors: every input of the deviation<=1 neighbourhoods decoded eagerly (DSAD on/off), network layer attached; a deep snapshot (all fields of all layers incl. unexported, packet bytes) is taken before and after each group of read-only accessors (Layers/Layer/LayerClass, special layers and flows, String, Dump, LayerGoString, VerifyChecksums) and must not change. read-only input: the same inputs placed in an mmap'ed region that is mprotect'ed read-only, decoded with NoCopy (eager and lazy, DSAD on/off) and read with every accessor under SetPanicOnFault: any store into the input - even of an identical value - faults and is reported with its site. package-level state: every package-level variable of gopacket and layers (accessors generated from the working tree) rendered deeply, unexported fields included; after a warm-up over all unmodified seeds no variable may change while the cases are decoded and read (small variables compared after every case, large tables every 256 cases). histories: every ordered pair (A,B) of the per-type seeds: A's packet is unchanged by decoding and reading B, decoding A again gives the identical packet, both input buffers are intact. distinct_nontrivial = distinct (layer sequence, error, truncated) outcomes."
	r.Coverage["history_corpus"] = len(K)
	r.Assumptions = []string{"a store into the read-only mapping raises SIGSEGV, which SetPanicOnFault turns into a panic carrying the faulting address", "every decode gets its own exact-capacity copy of the input except in the read-only phase"}
	enum.Main(r, phases)
	r.Finish()
}
