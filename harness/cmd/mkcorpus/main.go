// mkcorpus extracts the seed corpus from the repository's test fixtures:
// every []byte{...} literal of constant bytes in *_test.go files (with the
// first-layer expression of a NewPacket call using it, when there is one) and
// the packets of the small capture files. Output: corpus/seeds.jsonl.
package main

import (
	"bytes"
	"crypto/sha1"
	"encoding/hex"
	"encoding/json"
	"fmt"
	"go/ast"
	"go/constant"
	"go/parser"
	"go/token"
	"go/types"
	"os"
	"path/filepath"
	"sort"
	"strings"

	"github.com/gopacket/gopacket/pcapgo"
)

type Seed struct {
	Name  string `json:"name"`
	File  string `json:"file"`
	First string `json:"first,omitempty"`
	Hex   string `json:"hex"`
}

func constByte(e ast.Expr) (byte, bool) {
	tv, err := types.Eval(token.NewFileSet(), nil, token.NoPos, exprString(e))
	if err != nil || tv.Value == nil {
		return 0, false
	}
	v, ok := constant.Int64Val(constant.ToInt(tv.Value))
	if !ok || v < 0 || v > 255 {
		return 0, false
	}
	return byte(v), true
}

func exprString(e ast.Expr) string {
	switch x := e.(type) {
	case *ast.BasicLit:
		return x.Value
	case *ast.BinaryExpr:
		return "(" + exprString(x.X) + x.Op.String() + exprString(x.Y) + ")"
	case *ast.ParenExpr:
		return "(" + exprString(x.X) + ")"
	case *ast.UnaryExpr:
		return x.Op.String() + exprString(x.X)
	}
	return "?"
}

func isByteSlice(t ast.Expr) bool {
	a, ok := t.(*ast.ArrayType)
	if !ok || a.Len != nil {
		return false
	}
	id, ok := a.Elt.(*ast.Ident)
	return ok && (id.Name == "byte" || id.Name == "uint8")
}

func main() {
	repo := os.Args[1]
	out := os.Args[2]
	var seeds []Seed
	seen := map[string]bool{}
	add := func(s Seed, data []byte) {
		if len(data) == 0 || len(data) > 4096 {
			return
		}
		h := sha1.Sum(append([]byte(s.First+"|"), data...))
		k := hex.EncodeToString(h[:])
		if seen[k] {
			return
		}
		seen[k] = true
		s.Hex = hex.EncodeToString(data)
		seeds = append(seeds, s)
	}
	var files []string
	filepath.Walk(repo, func(p string, fi os.FileInfo, err error) error {
		if err != nil {
			return nil
		}
		if fi.IsDir() && (fi.Name() == ".git" || fi.Name() == "zzverif") {
			return filepath.SkipDir
		}
		if strings.HasSuffix(p, "_test.go") {
			files = append(files, p)
		}
		return nil
	})
	sort.Strings(files)
	fset := token.NewFileSet()
	for _, f := range files {
		af, err := parser.ParseFile(fset, f, nil, 0)
		if err != nil {
			continue
		}
		rel, _ := filepath.Rel(repo, f)
		// first pass: NewPacket(ident, expr, ...)
		first := map[string]string{}
		ast.Inspect(af, func(n ast.Node) bool {
			c, ok := n.(*ast.CallExpr)
			if !ok || len(c.Args) < 2 {
				return true
			}
			name := ""
			switch fn := c.Fun.(type) {
			case *ast.SelectorExpr:
				name = fn.Sel.Name
			case *ast.Ident:
				name = fn.Name
			}
			if name != "NewPacket" {
				return true
			}
			id, ok := c.Args[0].(*ast.Ident)
			if !ok {
				return true
			}
			var fl string
			switch a := c.Args[1].(type) {
			case *ast.Ident:
				fl = a.Name
			case *ast.SelectorExpr:
				fl = a.Sel.Name
			}
			if fl != "" && (strings.HasPrefix(fl, "LayerType") || strings.HasPrefix(fl, "LinkType")) {
				if _, dup := first[id.Name]; !dup {
					first[id.Name] = fl
				}
			}
			return true
		})
		n := 0
		var visit func(name string, node ast.Node)
		visit = func(name string, node ast.Node) {
			ast.Inspect(node, func(x ast.Node) bool {
				switch v := x.(type) {
				case *ast.ValueSpec:
					for i, val := range v.Values {
						nm := name
						if i < len(v.Names) {
							nm = v.Names[i].Name
						}
						visit(nm, val)
					}
					return false
				case *ast.AssignStmt:
					for i, val := range v.Rhs {
						nm := name
						if i < len(v.Lhs) {
							if id, ok := v.Lhs[i].(*ast.Ident); ok {
								nm = id.Name
							}
						}
						visit(nm, val)
					}
					return false
				case *ast.CompositeLit:
					if v.Type != nil && isByteSlice(v.Type) {
						data := make([]byte, 0, len(v.Elts))
						for _, e := range v.Elts {
							b, ok := constByte(e)
							if !ok {
								return true
							}
							data = append(data, b)
						}
						n++
						add(Seed{Name: fmt.Sprintf("%s#%d", name, n), File: rel, First: first[name]}, data)
						return false
					}
				}
				return true
			})
		}
		for _, d := range af.Decls {
			switch dd := d.(type) {
			case *ast.FuncDecl:
				visit(dd.Name.Name, dd)
			default:
				visit("", dd)
			}
		}
	}
	// capture files
	var caps []string
	filepath.Walk(repo, func(p string, fi os.FileInfo, err error) error {
		if err == nil && !fi.IsDir() && (strings.HasSuffix(p, ".pcap") || strings.HasSuffix(p, ".pcapng")) && fi.Size() < 100000 {
			caps = append(caps, p)
		}
		return nil
	})
	sort.Strings(caps)
	for _, c := range caps {
		data, _ := os.ReadFile(c)
		rel, _ := filepath.Rel(repo, c)
		func() {
			defer func() { recover() }()
			if strings.HasSuffix(c, ".pcapng") {
				r, err := pcapgo.NewNgReader(bytes.NewReader(data), pcapgo.DefaultNgReaderOptions)
				if err != nil {
					return
				}
				for i := 0; i < 12; i++ {
					d, _, err := r.ReadPacketData()
					if err != nil {
						return
					}
					add(Seed{Name: fmt.Sprintf("%s#%d", filepath.Base(c), i), File: rel, First: "link:" + fmt.Sprint(int(r.LinkType()))}, d)
				}
			} else {
				r, err := pcapgo.NewReader(bytes.NewReader(data))
				if err != nil {
					return
				}
				for i := 0; i < 12; i++ {
					d, _, err := r.ReadPacketData()
					if err != nil {
						return
					}
					add(Seed{Name: fmt.Sprintf("%s#%d", filepath.Base(c), i), File: rel, First: "link:" + fmt.Sprint(int(r.LinkType()))}, d)
				}
			}
		}()
	}
	f, _ := os.Create(out)
	enc := json.NewEncoder(f)
	nf := 0
	for _, s := range seeds {
		if s.First != "" {
			nf++
		}
		enc.Encode(s)
	}
	f.Close()
	fmt.Printf("seeds=%d with_first=%d\n", len(seeds), nf)
}
