// mkidioms writes hand-built "protocol idiom" seeds (through the library's own serializers)
// to stdout as corpus lines: packets with the list/tunnel structures that no repository
// fixture contains (an attribute split over several TLVs of the same type, several source
// route entries, stacked tags, a network layer inside a network layer). Run once by hand;
// the output is committed in corpus/seeds.jsonl.
package main

import (
	"encoding/hex"
	"encoding/json"
	"fmt"
	"net"
	"os"

	"github.com/gopacket/gopacket"
	"github.com/gopacket/gopacket/layers"
)

var opts = gopacket.SerializeOptions{FixLengths: true, ComputeChecksums: true}

func emit(name, first string, ls ...gopacket.SerializableLayer) {
	b := gopacket.NewSerializeBuffer()
	for _, l := range ls {
		if s, ok := l.(interface {
			SetNetworkLayerForChecksum(gopacket.NetworkLayer) error
		}); ok {
			for _, n := range ls {
				if nl, ok := n.(gopacket.NetworkLayer); ok {
					s.SetNetworkLayerForChecksum(nl)
				}
			}
		}
	}
	if err := gopacket.SerializeLayers(b, opts, ls...); err != nil {
		fmt.Fprintln(os.Stderr, name, err)
		return
	}
	json.NewEncoder(os.Stdout).Encode(map[string]string{"name": "idiom:" + name, "file": "harness/cmd/mkidioms", "first": first, "hex": hex.EncodeToString(b.Bytes())})
}

func emitRaw(name, first string, b []byte) {
	json.NewEncoder(os.Stdout).Encode(map[string]string{"name": "idiom:" + name, "file": "harness/cmd/mkidioms", "first": first, "hex": hex.EncodeToString(b)})
}

func fill(n int, b byte) []byte {
	p := make([]byte, n)
	for i := range p {
		p[i] = b + byte(i%7)
	}
	return p
}

func main() {
	eth := func(t layers.EthernetType) *layers.Ethernet {
		return &layers.Ethernet{SrcMAC: net.HardwareAddr{2, 0, 0, 0, 0, 1}, DstMAC: net.HardwareAddr{2, 0, 0, 0, 0, 2}, EthernetType: t}
	}
	ip4 := func(p layers.IPProtocol) *layers.IPv4 {
		return &layers.IPv4{Version: 4, IHL: 5, TTL: 64, Id: 9, Protocol: p, SrcIP: net.IP{10, 0, 0, 1}, DstIP: net.IP{10, 0, 0, 2}}
	}
	ip6 := func(p layers.IPProtocol) *layers.IPv6 {
		return &layers.IPv6{Version: 6, HopLimit: 64, NextHeader: p, SrcIP: net.ParseIP("2001:db8::1"), DstIP: net.ParseIP("2001:db8::2")}
	}
	udp := func(s, d int) *layers.UDP { return &layers.UDP{SrcPort: layers.UDPPort(s), DstPort: layers.UDPPort(d)} }
	attr := func(t layers.RADIUSAttributeType, v []byte) layers.RADIUSAttribute {
		return layers.RADIUSAttribute{Type: t, Length: layers.RADIUSAttributeLength(len(v) + 2), Value: v}
	}
	// RADIUS Access-Request carrying an EAP packet split over two / three EAP-Message attributes (RFC 3579)
	for _, parts := range [][]int{{253, 20}, {9, 5}, {253, 253, 4}} {
		r := &layers.RADIUS{Code: layers.RADIUSCodeAccessRequest, Identifier: 7, Authenticator: [16]byte{1, 2, 3, 4, 5, 6, 7, 8, 9, 10, 11, 12, 13, 14, 15, 16}}
		r.Attributes = append(r.Attributes, attr(layers.RADIUSAttributeTypeUserName, []byte("alice")))
		// one well-formed EAP Response/Identity packet, cut into the parts
		total := 0
		for _, n := range parts {
			total += n
		}
		eap := append([]byte{2, 5, byte(total >> 8), byte(total), 1}, fill(total-5, 0x41)...)
		for _, n := range parts {
			r.Attributes = append(r.Attributes, attr(layers.RADIUSAttributeTypeEAPMessage, eap[:n]))
			eap = eap[n:]
		}
		r.Attributes = append(r.Attributes, attr(layers.RADIUSAttributeTypeMessageAuthenticator, fill(16, 0x90)))
		emit(fmt.Sprintf("radius-eap-message-split-%v", parts), "link:1", eth(layers.EthernetTypeIPv4), ip4(layers.IPProtocolUDP), udp(40000, 1812), r)
	}
	// GRE with two and three source route entries
	for n := 2; n <= 3; n++ {
		var head *layers.GRERouting
		for i := n; i >= 1; i-- {
			head = &layers.GRERouting{AddressFamily: uint16(0x0800 + i), SREOffset: uint8(i), SRELength: uint8(4 * i), RoutingInformation: fill(4*i, byte(0x20*i)), Next: head}
		}
		g := &layers.GRE{ChecksumPresent: true, RoutingPresent: true, Protocol: layers.EthernetTypeIPv4, GRERouting: head}
		emit(fmt.Sprintf("gre-%d-source-route-entries", n), "link:1", eth(layers.EthernetTypeIPv4), ip4(layers.IPProtocolGRE), g, ip4(layers.IPProtocolUDP), udp(1, 2), gopacket.Payload(fill(6, 1)))
	}
	// stacked tags and labels
	emit("qinq-two-dot1q-tags", "link:1", eth(layers.EthernetTypeQinQ), &layers.Dot1Q{VLANIdentifier: 100, Type: layers.EthernetTypeDot1Q}, &layers.Dot1Q{VLANIdentifier: 200, Priority: 3, Type: layers.EthernetTypeIPv4}, ip4(layers.IPProtocolUDP), udp(5, 6), gopacket.Payload(fill(5, 2)))
	emit("mpls-two-labels", "link:1", eth(layers.EthernetTypeMPLSUnicast), &layers.MPLS{Label: 1000, TTL: 60}, &layers.MPLS{Label: 2000, TTL: 61, StackBottom: true}, ip4(layers.IPProtocolUDP), udp(5, 6), gopacket.Payload(fill(5, 3)))
	// a network layer inside a network layer
	emit("ipv4-in-ipv4", "link:1", eth(layers.EthernetTypeIPv4), ip4(layers.IPProtocolIPv4), &layers.IPv4{Version: 4, IHL: 5, TTL: 9, Protocol: layers.IPProtocolUDP, SrcIP: net.IP{192, 168, 1, 1}, DstIP: net.IP{192, 168, 1, 2}}, udp(7, 8), gopacket.Payload(fill(4, 4)))
	emit("ipv6-in-ipv4", "link:1", eth(layers.EthernetTypeIPv4), ip4(layers.IPProtocolIPv6), ip6(layers.IPProtocolUDP), udp(7, 8), gopacket.Payload(fill(4, 5)))
	emit("ipv4-in-ipv6", "link:1", eth(layers.EthernetTypeIPv6), ip6(layers.IPProtocolIPv4), ip4(layers.IPProtocolUDP), udp(7, 8), gopacket.Payload(fill(4, 6)))
	// IPv4 with two options of the same kind and TCP with two SACK blocks and a timestamp
	i4 := ip4(layers.IPProtocolTCP)
	i4.Options = []layers.IPv4Option{{OptionType: 7, OptionLength: 7, OptionData: []byte{4, 1, 2, 3, 4}}, {OptionType: 7, OptionLength: 7, OptionData: []byte{4, 5, 6, 7, 8}}, {OptionType: 1, OptionLength: 1}, {OptionType: 1, OptionLength: 1}}
	tcp := &layers.TCP{SrcPort: 50001, DstPort: 50002, Seq: 5, Ack: 6, ACK: true, Window: 99, Options: []layers.TCPOption{
		{OptionType: layers.TCPOptionKindSACK, OptionLength: 18, OptionData: fill(16, 0x30)},
		{OptionType: layers.TCPOptionKindTimestamps, OptionLength: 10, OptionData: fill(8, 0x50)}}}
	// TLS: a compact ClientHello (no session id, one cipher suite) with a server name and a second
	// extension, so that the extension list lies in the header region of the neighbourhoods
	host := []byte("a.io")
	sni := append([]byte{0, byte(len(host) + 3), 0, 0, byte(len(host))}, host...) // list length, type, name length, name
	exts := append(append([]byte{0, 0, 0, byte(len(sni))}, sni...), 0, 0x2b, 0, 3, 2, 3, 4)
	body := append([]byte{3, 3}, fill(32, 0x60)...)
	body = append(body, 0, 0, 2, 0xc0, 0x2f, 1, 0, 0, byte(len(exts)))
	body = append(body, exts...)
	hs := append([]byte{1, 0, 0, byte(len(body))}, body...)
	emitRaw("tls-compact-client-hello-with-server-name", "LayerTypeTLS", append([]byte{0x16, 3, 1, 0, byte(len(hs))}, hs...))
	// TLS: the ClientHello of layers/tls_test.go as TCP delivers it: the IPv4 length of that fixture
	// ends the segment 23 bytes before the extension list does (the frame itself is longer)
	if b, err := hex.DecodeString("16030100d1010000cd0301ffa288977c41a108342c98c27004a05d5f39efe070d512f13517b60dc4d3098500005ac014c00a0039003800880087c00fc00500350084c013c00900330032009a009900450044c00ec004002f00960041c011c007c00cc00200050004c012c00800160013c00dc003000a0015001200090014001100080006000300ff0201000060000b000403000102000a00340032000e000d0019000b000c00180009000a00160017000800060007001400150004000500120013000100020003000f0010001100230000000f000101"); err == nil {
		emitRaw("tls-client-hello-extension-list-longer-than-the-segment", "LayerTypeTLS", b)
	}
	// DNS: names made of literal labels followed by a compression pointer, the target holding a
	// label with a dot in it (a.b|com); a CNAME whose data is compressed the same way
	dns := []byte{0x12, 0x34, 0x81, 0x80, 0, 1, 0, 2, 0, 0, 0, 0}
	dns = append(dns, 3, 'a', '.', 'b', 3, 'c', 'o', 'm', 0, 0, 1, 0, 1)                        // question at 12
	dns = append(dns, 3, 'w', 'w', 'w', 0xc0, 12, 0, 1, 0, 1, 0, 0, 0, 60, 0, 4, 1, 2, 3, 4)    // www + pointer, A
	dns = append(dns, 0xc0, 25, 0, 5, 0, 1, 0, 0, 0, 60, 0, 7, 4, 'm', 'a', 'i', 'l', 0xc0, 12) // pointer, CNAME mail + pointer
	emitRaw("dns-literal-labels-then-pointer-to-a-name-with-a-dotted-label", "LayerTypeDNS", dns)
	dns2 := []byte{0x12, 0x35, 0x81, 0x80, 0, 1, 0, 2, 0, 0, 0, 0}
	dns2 = append(dns2, 2, 'e', 'x', 3, 'o', 'r', 'g', 0, 0, 1, 0, 1)                                                  // question at 12: ex.org
	dns2 = append(dns2, 3, 'w', 'w', 'w', 0xc0, 12, 0, 1, 0, 1, 0, 0, 0, 60, 0, 4, 1, 2, 3, 4)                         // www.ex.org A
	dns2 = append(dns2, 2, 'm', 'x', 0xc0, 24, 0, 15, 0, 1, 0, 0, 0, 60, 0, 9, 0, 10, 4, 'm', 'a', 'i', 'l', 0xc0, 12) // mx.www.ex.org MX 10 mail.ex.org
	emitRaw("dns-literal-labels-then-pointer-chain", "LayerTypeDNS", dns2)
	// IPv4 whose options end with End-of-Option-List followed by padding bytes
	i4p := ip4(layers.IPProtocolUDP)
	i4p.Options = []layers.IPv4Option{{OptionType: 148, OptionLength: 4, OptionData: []byte{0, 0}}, {OptionType: 0, OptionLength: 1}}
	i4p.Padding = []byte{0xaa, 0xbb, 0xcc}
	emit("ipv4-router-alert-end-of-options-padding", "link:1", eth(layers.EthernetTypeIPv4), i4p, udp(9, 10), gopacket.Payload(fill(4, 8)))
	emit("ipv4-two-record-route-options-tcp-two-sack-blocks", "link:1", eth(layers.EthernetTypeIPv4), i4, tcp, gopacket.Payload(fill(3, 7)))
}
