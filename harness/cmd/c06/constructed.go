package main

import (
	"bytes"
	"fmt"

	"github.com/gopacket/gopacket"
	"github.com/gopacket/gopacket/layers"

	"verif/engine/cons"
	"verif/engine/enum"
	"verif/engine/report"
)

// shared serialize buffer: SerializeLayers clears it, so a correct library gives the same
// result as with a fresh buffer; stale state surviving Clear shows up here
var shared = gopacket.NewSerializeBuffer()

func check(c cons.Case, w *enum.Worker) {
	w.Guard("harness", func() {
		var b struct {
			desc     string
			first    gopacket.LayerType
			ls       []gopacket.SerializableLayer
			pay      []byte
			implicit map[gopacket.LayerType]bool
		}
		b.desc, b.first, b.implicit = c.Desc, c.First, c.Implicit
		b.ls, b.pay = c.Make()
		w.Count("constructed", 1)
		all := append(append([]gopacket.SerializableLayer(nil), b.ls...), gopacket.Payload(b.pay))
		var nl gopacket.NetworkLayer
		for _, l := range b.ls {
			if n, ok := l.(gopacket.NetworkLayer); ok {
				nl = n
			}
		}
		for _, l := range b.ls {
			if s, ok := l.(setter); ok && nl != nil {
				s.SetNetworkLayerForChecksum(nl)
			}
		}
		var err error
		if w.Guard("SerializeLayers", func() { err = gopacket.SerializeLayers(shared, sopts, all...) }) {
			return
		}
		if err != nil && c.MayRefuse {
			w.OutcomeString("constructed-refused:" + cons.FamilyOf(b.desc))
			return
		}
		if err != nil {
			w.Violation("c06|constructed|serialize-error|"+cons.FamilyOf(b.desc), fmt.Sprintf("%s: %v", b.desc, err))
			return
		}
		y := append([]byte(nil), shared.Bytes()...)
		p := gopacket.NewPacket(y, b.first, gopacket.DecodeOptions{DecodeStreamsAsDatagrams: true})
		fam := cons.FamilyOf(b.desc)
		if el := p.ErrorLayer(); el != nil {
			w.Violation("c06|constructed|decode-error|"+fam, fmt.Sprintf("%s: the written bytes do not decode: %v", b.desc, el.Error()))
			return
		}
		if p.Metadata().Truncated {
			w.Violation("c06|constructed|truncated-flag-set|"+fam, fmt.Sprintf("%s: decoding the written bytes sets the truncation flag", b.desc))
			return
		}
		var got []gopacket.Layer
		for _, l := range p.Layers() {
			if b.implicit[l.LayerType()] {
				continue
			}
			got = append(got, l)
		}
		if len(got) < len(b.ls) {
			w.Violation("c06|constructed|layers-missing|"+fam, fmt.Sprintf("%s: decoded %d layers for %d written", b.desc, len(got), len(b.ls)))
			return
		}
		for i, l := range b.ls {
			if got[i].LayerType() != l.LayerType() {
				w.Violation("c06|constructed|layer-type-differs|"+fam, fmt.Sprintf("%s: layer %d decoded as %v, written %v", b.desc, i, got[i].LayerType(), l.LayerType()))
				return
			}
			a, c := fields(l), fields(got[i])
			if ip6, ok := l.(*layers.IPv6); ok && ip6.HopByHop == nil && i+1 < len(b.ls) && b.ls[i+1].LayerType() == layers.LayerTypeIPv6HopByHop {
				continue // the hop-by-hop header was given as a layer of its own; the decoded IPv6 layer also points at it
			}
			if _, ok := l.(*layers.IPv6); ok && len(b.pay) > 65000 {
				continue // a jumbogram: the serializer adds the hop-by-hop jumbo option itself
			}
			if a != c {
				w.Violation("c06|constructed|"+l.LayerType().String()+"|field|"+diffField(a, c), fmt.Sprintf("%s: layer %d: %s", b.desc, i, around(a, c)))
				return
			}
		}
		last := got[len(b.ls)-1]
		if !bytes.Equal(last.LayerPayload(), b.pay) && !(len(b.pay) == 0 && len(last.LayerPayload()) == 0) {
			w.Violation("c06|constructed|payload-differs|"+fam, fmt.Sprintf("%s: payload of %d bytes came back as %d bytes", b.desc, len(b.pay), len(last.LayerPayload())))
		}
		w.OutcomeString("constructed:" + fam)
	})
}

func constructed(r *report.Run) []enum.Phase {
	all := cons.All(r.Thorough())
	r.Coverage["constructed_cases"] = len(all)
	r.Coverage["constructed_rule"] = cons.Rule + " Every case is written with SerializeLayers into ONE re-used buffer and decoded: no error, no truncation, same layer types, same exported fields (lists in order), same payload."
	return []enum.Phase{{Name: "constructed", Len: int64(len(all)), ChunkHint: int64(len(all))/16 + 1,
		Describe: func(i int64) any { return map[string]any{"constructed": all[i].Desc} },
		Run:      func(i int64, w *enum.Worker) { check(all[i], w) }}}
}
