package main

import (
	"bytes"
	"fmt"
	"net"

	"github.com/gopacket/gopacket"
	"github.com/gopacket/gopacket/layers"

	"verif/engine/enum"
	"verif/engine/report"
)

// A constructed case: a list of layers built from in-range field values, written with
// SerializeLayers (FixLengths + ComputeChecksums) and decoded from its first layer.
type built struct {
	desc  string
	first gopacket.LayerType
	ls    []gopacket.SerializableLayer
	pay   []byte
	// expected decoded type sequence may contain layers the caller did not list explicitly
	// (a hop-by-hop header given through IPv6.HopByHop): types to ignore when aligning
	implicit map[gopacket.LayerType]bool
}

var (
	s4 = net.IP{10, 0, 0, 1}
	d4 = net.IP{10, 0, 0, 2}
	s6 = net.ParseIP("2001:db8::1")
	d6 = net.ParseIP("2001:db8::2")
)

func payloadN(n int) []byte {
	p := make([]byte, n)
	for i := range p {
		p[i] = byte(i*7 + 3)
	}
	return p
}

// shared serialize buffer: SerializeLayers clears it, so a correct library gives the same
// result as with a fresh buffer; stale state surviving Clear shows up here
var shared = gopacket.NewSerializeBuffer()

func check(b built, w *enum.Worker) {
	w.Guard("harness", func() {
		w.Count("constructed", 1)
		all := append(append([]gopacket.SerializableLayer(nil), b.ls...), gopacket.Payload(b.pay))
		var nl gopacket.NetworkLayer
		for _, l := range b.ls {
			if n, ok := l.(gopacket.NetworkLayer); ok {
				nl = n
			}
		}
		for _, l := range b.ls {
			if s, ok := l.(setter); ok && nl != nil {
				s.SetNetworkLayerForChecksum(nl)
			}
		}
		var err error
		if w.Guard("SerializeLayers", func() { err = gopacket.SerializeLayers(shared, sopts, all...) }) {
			return
		}
		if err != nil {
			w.Violation("c06|constructed|serialize-error|"+familyOf(b.desc), fmt.Sprintf("%s: %v", b.desc, err))
			return
		}
		y := append([]byte(nil), shared.Bytes()...)
		p := gopacket.NewPacket(y, b.first, gopacket.DecodeOptions{DecodeStreamsAsDatagrams: true})
		fam := familyOf(b.desc)
		if el := p.ErrorLayer(); el != nil {
			w.Violation("c06|constructed|decode-error|"+fam, fmt.Sprintf("%s: the written bytes do not decode: %v", b.desc, el.Error()))
			return
		}
		if p.Metadata().Truncated {
			w.Violation("c06|constructed|truncated-flag-set|"+fam, fmt.Sprintf("%s: decoding the written bytes sets the truncation flag", b.desc))
			return
		}
		var got []gopacket.Layer
		for _, l := range p.Layers() {
			if b.implicit[l.LayerType()] {
				continue
			}
			got = append(got, l)
		}
		if len(got) < len(b.ls) {
			w.Violation("c06|constructed|layers-missing|"+fam, fmt.Sprintf("%s: decoded %d layers for %d written", b.desc, len(got), len(b.ls)))
			return
		}
		for i, l := range b.ls {
			if got[i].LayerType() != l.LayerType() {
				w.Violation("c06|constructed|layer-type-differs|"+fam, fmt.Sprintf("%s: layer %d decoded as %v, written %v", b.desc, i, got[i].LayerType(), l.LayerType()))
				return
			}
			a, c := fields(l), fields(got[i])
			if ip6, ok := l.(*layers.IPv6); ok && ip6.HopByHop == nil && i+1 < len(b.ls) && b.ls[i+1].LayerType() == layers.LayerTypeIPv6HopByHop {
				continue // the hop-by-hop header was given as a layer of its own; the decoded IPv6 layer also points at it
			}
			if _, ok := l.(*layers.IPv6); ok && len(b.pay) > 65000 {
				continue // a jumbogram: the serializer adds the hop-by-hop jumbo option itself
			}
			if a != c {
				w.Violation("c06|constructed|"+l.LayerType().String()+"|field|"+diffField(a, c), fmt.Sprintf("%s: layer %d: %s", b.desc, i, around(a, c)))
				return
			}
		}
		last := got[len(b.ls)-1]
		if !bytes.Equal(last.LayerPayload(), b.pay) && !(len(b.pay) == 0 && len(last.LayerPayload()) == 0) {
			w.Violation("c06|constructed|payload-differs|"+fam, fmt.Sprintf("%s: payload of %d bytes came back as %d bytes", b.desc, len(b.pay), len(last.LayerPayload())))
		}
		w.OutcomeString("constructed:" + fam)
	})
}

func familyOf(desc string) string {
	for i := range desc {
		if desc[i] == ':' {
			return desc[:i]
		}
	}
	return desc
}

// ---- families ----------------------------------------------------------------------

func sizes(thorough bool) []int {
	s := []int{0, 1, 2, 3, 7, 8, 1499, 1500}
	if thorough {
		s = append(s, 9000, 65507, 65527, 65528, 65529, 65535, 65536, 70000)
	} else {
		s = append(s, 65527, 65528, 65529, 65535, 65536)
	}
	return s
}

func transportFamily(thorough bool) []built {
	var out []built
	for _, n := range sizes(thorough) {
		for v := 4; v <= 6; v += 2 {
			ip := func(proto layers.IPProtocol) (gopacket.SerializableLayer, gopacket.LayerType) {
				if v == 4 {
					return &layers.IPv4{Version: 4, IHL: 5, TTL: 64, Id: 7, Protocol: proto, SrcIP: s4, DstIP: d4}, layers.LayerTypeIPv4
				}
				return &layers.IPv6{Version: 6, HopLimit: 64, NextHeader: proto, SrcIP: s6, DstIP: d6}, layers.LayerTypeIPv6
			}
			max4 := 65535 - 20
			// UDP
			if v == 6 || n+8 <= max4 {
				l3, ft := ip(layers.IPProtocolUDP)
				out = append(out, built{desc: fmt.Sprintf("udp-over-ipv%d: payload %d bytes", v, n), first: ft, ls: []gopacket.SerializableLayer{l3, &layers.UDP{SrcPort: 40001, DstPort: 40002}}, pay: payloadN(n),
					implicit: map[gopacket.LayerType]bool{layers.LayerTypeIPv6HopByHop: true}})
			}
			// TCP
			if v == 6 || n+20 <= max4 {
				l3, ft := ip(layers.IPProtocolTCP)
				out = append(out, built{desc: fmt.Sprintf("tcp-over-ipv%d: payload %d bytes", v, n), first: ft, ls: []gopacket.SerializableLayer{l3, &layers.TCP{SrcPort: 40001, DstPort: 40002, Seq: 1, Ack: 2, ACK: true, Window: 100}}, pay: payloadN(n),
					implicit: map[gopacket.LayerType]bool{layers.LayerTypeIPv6HopByHop: true}})
			}
			// ICMP
			if n <= 1500 {
				if v == 4 {
					l3, ft := ip(layers.IPProtocolICMPv4)
					out = append(out, built{desc: fmt.Sprintf("icmpv4: payload %d bytes", n), first: ft, ls: []gopacket.SerializableLayer{l3, &layers.ICMPv4{TypeCode: layers.CreateICMPv4TypeCode(8, 0), Id: 3, Seq: 4}}, pay: payloadN(n)})
				} else {
					l3, ft := ip(layers.IPProtocolICMPv6)
					out = append(out, built{desc: fmt.Sprintf("icmpv6: payload %d bytes", n), first: ft, ls: []gopacket.SerializableLayer{l3, &layers.ICMPv6{TypeCode: layers.CreateICMPv6TypeCode(1, 0)}}, pay: payloadN(n + 4)})
				}
			}
		}
	}
	return out
}

// all lists of 0..3 elements over k kinds
func lists(k, maxLen int) [][]int {
	out := [][]int{{}}
	var rec func(p []int)
	rec = func(p []int) {
		if len(p) == maxLen {
			return
		}
		for i := 0; i < k; i++ {
			q := append(append([]int(nil), p...), i)
			out = append(out, q)
			rec(q)
		}
	}
	rec(nil)
	return out
}

func ipv4OptionFamily() []built {
	kinds := []layers.IPv4Option{
		{OptionType: 1, OptionLength: 1},
		{OptionType: 130, OptionLength: 2, OptionData: []byte{}},
		{OptionType: 130, OptionLength: 3, OptionData: []byte{9}},
		{OptionType: 130, OptionLength: 4, OptionData: []byte{9, 8}},
		{OptionType: 7, OptionLength: 7, OptionData: []byte{4, 1, 2, 3, 4}},
	}
	var out []built
	for _, l := range lists(len(kinds), 3) {
		var os []layers.IPv4Option
		tot := 0
		for _, k := range l {
			os = append(os, kinds[k])
			tot += int(kinds[k].OptionLength)
		}
		for ; tot%4 != 0; tot++ {
			os = append(os, kinds[0]) // the caller aligns the list with NOPs: padding is then not needed
		}
		ip := &layers.IPv4{Version: 4, TTL: 64, Id: 7, Protocol: layers.IPProtocolUDP, SrcIP: s4, DstIP: d4, Options: os}
		out = append(out, built{desc: fmt.Sprintf("ipv4-options: %v", l), first: layers.LayerTypeIPv4, ls: []gopacket.SerializableLayer{ip, &layers.UDP{SrcPort: 40001, DstPort: 40002}}, pay: payloadN(5)})
	}
	return out
}

func tcpOptionFamily() []built {
	kinds := []layers.TCPOption{
		{OptionType: layers.TCPOptionKindNop, OptionLength: 1},
		{OptionType: layers.TCPOptionKindMSS, OptionLength: 4, OptionData: []byte{5, 0xb4}},
		{OptionType: layers.TCPOptionKindWindowScale, OptionLength: 3, OptionData: []byte{7}},
		{OptionType: layers.TCPOptionKindSACKPermitted, OptionLength: 2},
		{OptionType: layers.TCPOptionKindTimestamps, OptionLength: 10, OptionData: []byte{1, 2, 3, 4, 5, 6, 7, 8}},
		{OptionType: 99, OptionLength: 5, OptionData: []byte{1, 2, 3}},
	}
	var out []built
	for _, l := range lists(len(kinds), 3) {
		var os []layers.TCPOption
		tot := 0
		for _, k := range l {
			os = append(os, kinds[k])
			tot += int(kinds[k].OptionLength)
		}
		for ; tot%4 != 0; tot++ {
			os = append(os, kinds[0])
		}
		ip := &layers.IPv4{Version: 4, IHL: 5, TTL: 64, Id: 7, Protocol: layers.IPProtocolTCP, SrcIP: s4, DstIP: d4}
		out = append(out, built{desc: fmt.Sprintf("tcp-options: %v", l), first: layers.LayerTypeIPv4, ls: []gopacket.SerializableLayer{ip, &layers.TCP{SrcPort: 40001, DstPort: 40002, Seq: 1, SYN: true, Window: 100, Options: os}}, pay: payloadN(3)})
	}
	return out
}

func ipv6TLVFamily() []built {
	var out []built
	// option data lengths 0..7: every residue mod 8 of the extension header length occurs
	for _, l := range lists(8, 3) {
		mk := func() (hbh []*layers.IPv6HopByHopOption, dst []*layers.IPv6DestinationOption) {
			for i, n := range l {
				d := make([]byte, n)
				for j := range d {
					d[j] = byte(0x40 + i*8 + j)
				}
				hbh = append(hbh, &layers.IPv6HopByHopOption{OptionType: 0x1e, OptionData: d})
				dst = append(dst, &layers.IPv6DestinationOption{OptionType: 0x1e, OptionData: d})
			}
			return
		}
		h, d := mk()
		ip := &layers.IPv6{Version: 6, HopLimit: 64, NextHeader: layers.IPProtocolIPv6HopByHop, SrcIP: s6, DstIP: d6}
		hb := &layers.IPv6HopByHop{Options: h}
		hb.NextHeader = layers.IPProtocolUDP
		out = append(out, built{desc: fmt.Sprintf("ipv6-hopbyhop-explicit-layer: option data lengths %v", l), first: layers.LayerTypeIPv6, ls: []gopacket.SerializableLayer{ip, hb, &layers.UDP{SrcPort: 40001, DstPort: 40002}}, pay: payloadN(4)})
		ip2 := &layers.IPv6{Version: 6, HopLimit: 64, NextHeader: layers.IPProtocolIPv6Destination, SrcIP: s6, DstIP: d6}
		ds := &layers.IPv6Destination{Options: d}
		ds.NextHeader = layers.IPProtocolUDP
		out = append(out, built{desc: fmt.Sprintf("ipv6-destination: option data lengths %v", l), first: layers.LayerTypeIPv6, ls: []gopacket.SerializableLayer{ip2, ds, &layers.UDP{SrcPort: 40001, DstPort: 40002}}, pay: payloadN(4)})
		// the hop-by-hop header given only through IPv6.HopByHop (right after a stack with an explicit one went through the same buffer)
		h2, _ := mk()
		hb2 := &layers.IPv6HopByHop{Options: h2}
		hb2.NextHeader = layers.IPProtocolUDP
		ip3 := &layers.IPv6{Version: 6, HopLimit: 64, NextHeader: layers.IPProtocolUDP, SrcIP: s6, DstIP: d6, HopByHop: hb2}
		out = append(out, built{desc: fmt.Sprintf("ipv6-hopbyhop-through-field: option data lengths %v", l), first: layers.LayerTypeIPv6, ls: []gopacket.SerializableLayer{ip3, &layers.UDP{SrcPort: 40001, DstPort: 40002}}, pay: payloadN(4),
			implicit: map[gopacket.LayerType]bool{layers.LayerTypeIPv6HopByHop: true}})
	}
	return out
}

func ndpFamily() []built {
	kinds := []layers.ICMPv6Option{
		{Type: layers.ICMPv6OptSourceAddress, Data: []byte{2, 0, 0, 0, 0, 1}},
		{Type: layers.ICMPv6OptMTU, Data: []byte{0, 0, 0, 0, 5, 0xdc}},
		{Type: layers.ICMPv6OptTargetAddress, Data: []byte{2, 0, 0, 0, 0, 2}},
		{Type: layers.ICMPv6OptPrefixInfo, Data: append([]byte{64, 0xc0, 0, 0, 0, 10, 0, 0, 0, 5, 0, 0, 0, 0}, net.ParseIP("2001:db8::")...)},
	}
	var out []built
	for _, l := range lists(len(kinds), 3) {
		opts := func() layers.ICMPv6Options {
			var os layers.ICMPv6Options
			for _, k := range l {
				os = append(os, kinds[k])
			}
			return os
		}
		ip := func() *layers.IPv6 {
			return &layers.IPv6{Version: 6, HopLimit: 255, NextHeader: layers.IPProtocolICMPv6, SrcIP: s6, DstIP: d6}
		}
		msgs := []struct {
			name string
			typ  uint8
			l    gopacket.SerializableLayer
		}{
			{"router-advertisement", layers.ICMPv6TypeRouterAdvertisement, &layers.ICMPv6RouterAdvertisement{HopLimit: 64, Flags: 0x80, RouterLifetime: 1800, Options: opts()}},
			{"router-solicitation", layers.ICMPv6TypeRouterSolicitation, &layers.ICMPv6RouterSolicitation{Options: opts()}},
			{"neighbor-solicitation", layers.ICMPv6TypeNeighborSolicitation, &layers.ICMPv6NeighborSolicitation{TargetAddress: d6, Options: opts()}},
			{"neighbor-advertisement", layers.ICMPv6TypeNeighborAdvertisement, &layers.ICMPv6NeighborAdvertisement{Flags: 0x60, TargetAddress: d6, Options: opts()}},
			{"redirect", layers.ICMPv6TypeRedirect, &layers.ICMPv6Redirect{TargetAddress: d6, DestinationAddress: s6, Options: opts()}},
		}
		for _, m := range msgs {
			out = append(out, built{desc: fmt.Sprintf("ndp-%s: options %v", m.name, l), first: layers.LayerTypeIPv6,
				ls: []gopacket.SerializableLayer{ip(), &layers.ICMPv6{TypeCode: layers.CreateICMPv6TypeCode(m.typ, 0)}, m.l}, pay: nil})
		}
	}
	return out
}

func greFamily() []built {
	var out []built
	for f := 0; f < 16; f++ {
		g := &layers.GRE{ChecksumPresent: f&1 != 0, KeyPresent: f&2 != 0, SeqPresent: f&4 != 0, AckPresent: f&8 != 0, Protocol: layers.EthernetTypeIPv4}
		if g.AckPresent {
			g.Version = 1
			g.KeyPresent = true
			g.Ack = 11
		}
		if g.KeyPresent {
			g.Key = 0x01020304
		}
		if g.SeqPresent {
			g.Seq = 9
		}
		ip := &layers.IPv4{Version: 4, IHL: 5, TTL: 64, Protocol: layers.IPProtocolGRE, SrcIP: s4, DstIP: d4}
		inner := &layers.IPv4{Version: 4, IHL: 5, TTL: 3, Protocol: layers.IPProtocolUDP, SrcIP: d4, DstIP: s4}
		out = append(out, built{desc: fmt.Sprintf("gre: flags C=%v K=%v S=%v A=%v", g.ChecksumPresent, g.KeyPresent, g.SeqPresent, g.AckPresent), first: layers.LayerTypeIPv4,
			ls: []gopacket.SerializableLayer{ip, g, inner, &layers.UDP{SrcPort: 40001, DstPort: 40002}}, pay: payloadN(6)})
	}
	return out
}

func constructed(r *report.Run) []enum.Phase {
	var all []built
	all = append(all, transportFamily(r.Thorough())...)
	all = append(all, ipv4OptionFamily()...)
	all = append(all, tcpOptionFamily()...)
	all = append(all, ipv6TLVFamily()...)
	all = append(all, ndpFamily()...)
	all = append(all, greFamily()...)
	r.Coverage["constructed_cases"] = len(all)
	r.Coverage["constructed_rule"] = "transport: UDP, TCP, ICMPv4/6 over IPv4 and IPv6 x payload sizes {0,1,2,3,7,8,1499,1500,65527,65528,65529,65535,65536} (jumbograms over IPv6); ipv4-options / tcp-options: every list of 0..3 options over 5 / 6 option kinds (all padding residues); ipv6: hop-by-hop (as explicit layer and through IPv6.HopByHop) and destination headers with every list of 0..3 TLVs of data length 0..7 (all residues mod 8); ndp: the five neighbour-discovery messages x every list of 0..3 options over 4 kinds; gre: all 16 flag combinations. Every case is written with SerializeLayers into ONE re-used buffer and decoded: no error, no truncation, same layer types, same exported fields (lists in order), same payload."
	return []enum.Phase{{Name: "constructed", Len: int64(len(all)), ChunkHint: int64(len(all))/16 + 1,
		Describe: func(i int64) any { return map[string]any{"constructed": all[i].desc} },
		Run:      func(i int64, w *enum.Worker) { check(all[i], w) }}}
}
