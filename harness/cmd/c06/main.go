// C06: serialize then decode returns the same layers and payload.
package main

import (
	"bytes"
	"fmt"
	"strings"

	"github.com/gopacket/gopacket"
	"github.com/gopacket/gopacket/layers"

	"verif/engine/corpus"
	"verif/engine/dspace"
	"verif/engine/enum"
	"verif/engine/ptrace"
	"verif/engine/report"
	"verif/engine/sig"
)

var sopts = gopacket.SerializeOptions{FixLengths: true, ComputeChecksums: true}

// fields not compared: BaseLayer (contents/payload are compared separately), checksum
// values (they are C08's subject and legitimately change with ComputeChecksums), the
// checksum back-pointer
var skip = map[string]bool{"BaseLayer": true, "pseudoheader": true, "tcpipchecksum": true, "layers.tcpipchecksum": true, "Checksum": true, "Contents": true, "Payload": true}

type setter interface {
	SetNetworkLayerForChecksum(gopacket.NetworkLayer) error
}

// SCTP chunk serializers have value receivers, so the Length that FixLengths computes is not
// visible in the value that was written: their length fields are not compared
var skipSCTP = func() map[string]bool {
	m := map[string]bool{"Length": true, "ActualLength": true}
	for k, v := range skip {
		m[k] = v
	}
	return m
}()

func fields(l any) string {
	if x, ok := l.(gopacket.Layer); ok && strings.HasPrefix(x.LayerType().String(), "SCTP") {
		return sig.DeepExported(l, skipSCTP)
	}
	return sig.DeepExported(l, skip)
}

func diffField(a, b string) string {
	i := 0
	for i < len(a) && i < len(b) && a[i] == b[i] {
		i++
	}
	j := i
	if j >= len(a) {
		j = len(a) - 1
	}
	for j > 0 && a[j] != '=' {
		j--
	}
	k := j
	for k > 0 && a[k-1] != ' ' && a[k-1] != '{' && a[k-1] != ',' && a[k-1] != '&' {
		k--
	}
	if k < j {
		return a[k:j]
	}
	return "?"
}

func around(a, b string) string {
	i := 0
	for i < len(a) && i < len(b) && a[i] == b[i] {
		i++
	}
	s := max(0, i-50)
	return fmt.Sprintf("...%.150s  VS  ...%.150s", a[s:], b[s:])
}

// single: one decoded layer value written over its payload and decoded again as its own type
func single(c dspace.Case, w *enum.Worker) {
	w.Guard("harness", func() {
		t0 := &ptrace.Trace{}
		p := gopacket.NewPacket(corpus.Exact(c.Data), ptrace.Wrap(c.First.Dec, t0), gopacket.DecodeOptions{DecodeStreamsAsDatagrams: true})
		if p.ErrorLayer() != nil || p.Metadata().Truncated {
			return // only values obtained by decoding without error
		}
		ls := p.Layers()
		for i, l := range ls {
			// an input extended by thousands of filler bytes can decode into ~2000 two-byte
			// layers; writing and re-decoding each of them over the rest is quadratic (minutes
			// per case) and adds nothing after the first few: judge the first 24 and the last 8
			if len(ls) > 32 && i >= 24 && i < len(ls)-8 {
				continue
			}
			sl, ok := l.(gopacket.SerializableLayer)
			if !ok {
				continue
			}
			f, okf := corpus.FirstByName("LayerType:" + l.LayerType().String())
			if !okf {
				continue
			}
			if s, ok := l.(setter); ok {
				if nl := p.NetworkLayer(); nl != nil {
					s.SetNetworkLayerForChecksum(nl)
				}
			}
			payload := append([]byte(nil), l.LayerPayload()...)
			buf := gopacket.NewSerializeBuffer()
			if len(payload) > 0 {
				b, _ := buf.AppendBytes(len(payload))
				copy(b, payload)
			}
			var serr error
			if w.Guard("serialize", func() { serr = sl.SerializeTo(buf, sopts) }) {
				continue
			}
			w.Count("layer_values", 1)
			if serr != nil {
				w.Count("serialize_errors", 1)
				continue // a refusal to write is C07's subject
			}
			want := fields(l) // as left by SerializeTo
			y := append([]byte(nil), buf.Bytes()...)
			t1 := &ptrace.Trace{}
			p2 := gopacket.NewPacket(y, ptrace.Wrap(f.Dec, t1), gopacket.DecodeOptions{DecodeStreamsAsDatagrams: true})
			ls2 := p2.Layers()
			lt := l.LayerType().String()
			w.OutcomeString(lt)
			if fa := t1.FailAt(); fa == 0 || len(ls2) == 0 || ls2[0].LayerType() != l.LayerType() {
				what := "decoding the written bytes fails at the layer itself"
				if el := p2.ErrorLayer(); el != nil {
					what += ": " + el.Error().Error()
					if strings.Contains(el.Error().Error(), "has no associated decoder") {
						continue // the type cannot be read on its own (e.g. SCTP chunks): outside "can be both written and read"
					}
				}
				w.Violation("c06|single|"+lt+"|does-not-decode-as-itself", fmt.Sprintf("%s (layer %d of the case); written %d bytes", what, i, len(y)))
				continue
			}
			if t1.TruncatedBy(0) {
				w.Violation("c06|single|"+lt+"|truncated-flag-set", fmt.Sprintf("decoding the written %s sets the truncation flag (layer %d of the case)", lt, i))
				continue
			}
			got := fields(ls2[0])
			if got != want {
				w.Violation("c06|single|"+lt+"|field|"+diffField(want, got), fmt.Sprintf("%s (layer %d of the case): written %s", lt, i, around(want, got)))
				continue
			}
			if lt == "Ethernet" && len(y) == 60 && bytes.HasPrefix(ls2[0].LayerPayload(), payload) && len(bytes.Trim(ls2[0].LayerPayload()[len(payload):], "\x00")) == 0 {
				continue // FixLengths pads an Ethernet frame to the 60-byte minimum with zeros
			}
			if !bytes.Equal(ls2[0].LayerPayload(), payload) {
				w.Violation("c06|single|"+lt+"|payload-differs", fmt.Sprintf("%s (layer %d of the case): payload of %d bytes came back as %d bytes", lt, i, len(payload), len(ls2[0].LayerPayload())))
			}
		}
	})
}

// stack: the whole packet through SerializePacket, decoded again, and written once more
func stack(c dspace.Case, w *enum.Worker) {
	w.Guard("harness", func() {
		p := gopacket.NewPacket(corpus.Exact(c.Data), c.First.Dec, gopacket.DecodeOptions{DecodeStreamsAsDatagrams: true})
		if p.ErrorLayer() != nil || p.Metadata().Truncated {
			return
		}
		attach := func(q gopacket.Packet) {
			if nl := q.NetworkLayer(); nl != nil {
				for _, l := range q.Layers() {
					if s, ok := l.(setter); ok {
						s.SetNetworkLayerForChecksum(nl)
					}
				}
			}
		}
		attach(p)
		pl := p.Layers()
		for _, l := range pl {
			if _, ok := l.(gopacket.SerializableLayer); !ok {
				return
			}
		}
		if n := len(pl); n > 0 && pl[n-1].LayerType() == layers.LayerTypeEthernet && len(pl[n-1].LayerPayload()) < 46 {
			return // FixLengths pads a short Ethernet frame with zeros, which then decode as a further layer
		}
		buf := gopacket.NewSerializeBuffer()
		var err error
		if w.Guard("SerializePacket", func() { err = gopacket.SerializePacket(buf, sopts, p) }) || err != nil {
			return
		}
		w.Count("stacks", 1)
		y := append([]byte(nil), buf.Bytes()...)
		var types []string
		for _, l := range p.Layers() {
			types = append(types, l.LayerType().String())
		}
		stackName := strings.Join(types, "/")
		p2 := gopacket.NewPacket(y, c.First.Dec, gopacket.DecodeOptions{DecodeStreamsAsDatagrams: true})
		ls, ls2 := p.Layers(), p2.Layers()
		var types2 []string
		for _, l := range ls2 {
			types2 = append(types2, l.LayerType().String())
		}
		if strings.Join(types2, "/") != stackName {
			// name the first layer at which the stacks part
			k := 0
			for k < len(types) && k < len(types2) && types[k] == types2[k] {
				k++
			}
			at := "end"
			if k < len(types) {
				at = types[k]
				if at == "Payload" && k > 0 {
					at = "Payload after " + types[k-1]
				}
			}
			w.Violation("c06|stack|layer-sequence-differs|at "+at, fmt.Sprintf("stack %s written with SerializePacket decodes as %s", stackName, strings.Join(types2, "/")))
			return
		}
		if p2.Metadata().Truncated {
			// keyed by the innermost two layer types (the flag is set by the layer that finds the
			// bytes after it short or superfluous; the carriers in front do not matter)
			inner := types
			if len(inner) > 2 {
				inner = inner[len(inner)-2:]
			}
			w.Violation("c06|stack|truncated-flag-set|"+strings.Join(inner, "/"), "decoding the written stack "+stackName+" sets the truncation flag")
			return
		}
		for i := range ls {
			a, b := fields(ls[i]), fields(ls2[i])
			if lt := ls[i].LayerType().String(); (lt == "AGUEVar0" || lt == "AGUEVar1") && a != b && diffField(a, b) == "Data" {
				continue // AGUE.Data mirrors the payload bytes, which change when inner checksums are recomputed
			}
			if a != b {
				w.Violation("c06|stack|"+ls[i].LayerType().String()+"|field|"+diffField(a, b), fmt.Sprintf("layer %d of stack %s: %s", i, stackName, around(a, b)))
				return
			}
		}
		// writing the decoded stack once more reproduces the same bytes
		attach(p2)
		buf2 := gopacket.NewSerializeBuffer()
		if w.Guard("SerializePacket", func() { err = gopacket.SerializePacket(buf2, sopts, p2) }) {
			return
		}
		if err != nil {
			w.Violation("c06|stack|second-write-fails|"+stackName, err.Error())
			return
		}
		if !bytes.Equal(buf2.Bytes(), y) {
			w.Violation("c06|stack|second-write-differs|"+stackName, fmt.Sprintf("first write %d bytes, second write %d bytes", len(y), len(buf2.Bytes())))
		}
		w.OutcomeString("stack:" + stackName)
	})
}

var _ = layers.LayerTypeIPv4

func main() {
	r := report.New("C06", "exploration")
	sp := dspace.Build(r.Thorough())
	phases := []enum.Phase{
		{Name: "decoded-values", Len: sp.NeighLen(),
			Describe: func(i int64) any { return sp.NeighCase(i).Describe() },
			Run: func(i int64, w *enum.Worker) {
				c := sp.NeighCase(i)
				single(c, w)
				stack(c, w)
			}},
	}
	phases = append(phases, constructed(r)...)
	r.Coverage["rule"] = "decoded values: every layer of every packet of the deviation<=1 neighbourhoods that decodes without error layer and truncation and is serializable: written over its own payload with FixLengths+ComputeChecksums, the bytes decoded as the layer's own type; the first layer must decode (failure attributed by a wrapper builder), must not set the truncation flag, must have the same exported field values (deep, lists in order; checksum values and BaseLayer excluded) and the same payload. stacks: every such packet whose layers are all serializable through SerializePacket: same type sequence, same fields, no truncation, and writing the decoded stack again reproduces the bytes. constructed: see the per-family rules in the evidence. distinct_nontrivial = distinct layer types / stacks exercised."
	r.Assumptions = []string{"checksum field values are not compared (C08)", "a serializer returning an error is not judged here (C07)"}
	enum.Main(r, phases)
	r.Finish()
}
