// C02 consists of the enumeration part (histories, write monitors) and the free-running
// happens-before pass built with -race.
package main

import "verif/engine/multi"

func main() { multi.Run("C02", "exploration", []string{"c02a", "c02r-race"}) }
