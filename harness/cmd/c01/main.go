// C01: packet decoding is total and crash-free with recovery on; the error
// layer contract holds.
package main

import (
	"fmt"

	"github.com/gopacket/gopacket"
	"github.com/gopacket/gopacket/layers"

	"verif/engine/corpus"
	"verif/engine/dspace"
	"verif/engine/enum"
	"verif/engine/report"
	"verif/engine/sig"
)

// ---- transparent wrapper PacketBuilder -------------------------------------

type trace struct {
	failed     bool // some decoder returned an error or did not return (panic)
	failedWhat string
	setErr     int
	added      int
}

type wrapDec struct {
	inner gopacket.Decoder
	t     *trace
}

func (w wrapDec) Decode(data []byte, pb gopacket.PacketBuilder) error {
	// pb is either the real packet (first call, or a lazy continuation) or our wrapper
	real := pb
	if wb, ok := pb.(*wrapPB); ok {
		real = wb.PacketBuilder
	}
	returned := false
	defer func() {
		if !returned {
			w.t.failed = true
			w.t.failedWhat = "panic"
		}
	}()
	err := w.inner.Decode(data, &wrapPB{PacketBuilder: real, t: w.t})
	returned = true
	if err != nil {
		w.t.failed = true
		w.t.failedWhat = err.Error()
	}
	return err
}

type wrapPB struct {
	gopacket.PacketBuilder
	t *trace
}

func (w *wrapPB) AddLayer(l gopacket.Layer) { w.t.added++; w.PacketBuilder.AddLayer(l) }
func (w *wrapPB) SetErrorLayer(l gopacket.ErrorLayer) {
	w.t.setErr++
	w.PacketBuilder.SetErrorLayer(l)
}
func (w *wrapPB) NextDecoder(next gopacket.Decoder) error {
	if next == nil {
		return w.PacketBuilder.NextDecoder(nil)
	}
	return w.PacketBuilder.NextDecoder(wrapDec{next, w.t})
}

// ---- options ----------------------------------------------------------------

func optSet(k int) gopacket.DecodeOptions {
	return gopacket.DecodeOptions{Lazy: k&1 != 0, DecodeStreamsAsDatagrams: k&2 != 0, NoCopy: k&4 != 0, Pool: k&8 != 0}
}

var classes = []gopacket.LayerClass{layers.LayerClassIPNetwork, layers.LayerClassIPTransport, layers.LayerClassIPControl}

const absentType = gopacket.LayerType(1999)

func accessors(p gopacket.Packet, w *enum.Worker) {
	var ls []gopacket.Layer
	w.Guard("Layers", func() { ls = p.Layers() })
	for _, l := range ls {
		l := l
		w.Guard("Layer basics", func() { l.LayerType(); l.LayerContents(); l.LayerPayload() })
		w.Guard("LayerGoString", func() { gopacket.LayerGoString(l) })
		w.Guard("Layer(t)", func() { p.Layer(l.LayerType()) })
	}
	w.Guard("Layer(absent)", func() { p.Layer(absentType) })
	for _, c := range classes {
		c := c
		w.Guard("LayerClass", func() { p.LayerClass(c) })
	}
	w.Guard("LinkLayer/flow", func() {
		if l := p.LinkLayer(); l != nil {
			l.LinkFlow()
		}
	})
	w.Guard("NetworkLayer/flow", func() {
		if l := p.NetworkLayer(); l != nil {
			l.NetworkFlow()
		}
	})
	w.Guard("TransportLayer/flow", func() {
		if l := p.TransportLayer(); l != nil {
			l.TransportFlow()
		}
	})
	w.Guard("ApplicationLayer", func() {
		if l := p.ApplicationLayer(); l != nil {
			l.Payload()
		}
	})
	w.Guard("ErrorLayer", func() {
		if l := p.ErrorLayer(); l != nil {
			_ = l.Error()
		}
	})
	// String and Dump call LayerString / LayerDump on every layer
	w.Guard("String", func() { _ = p.String() })
	w.Guard("Dump", func() { _ = p.Dump() })
	w.Guard("VerifyChecksums", func() { p.VerifyChecksums() })
	w.Guard("Data/Metadata", func() { p.Data(); p.Metadata() })
	if pp, ok := p.(gopacket.PooledPacket); ok {
		w.Guard("Dispose", func() { pp.Dispose() })
	}
}

func isErrLayer(l gopacket.Layer) bool {
	if l.LayerType() == gopacket.LayerTypeDecodeFailure {
		return true
	}
	_, ok := l.(gopacket.ErrorLayer)
	return ok
}

func runCase(c dspace.Case, nopts int, w *enum.Worker) {
	for k := 0; k < nopts; k++ {
		o := optSet(k)
		in := c.Data
		if o.NoCopy {
			in = corpus.Exact(c.Data) // own copy per packet (DESIGN: NoCopy harness rule)
		}
		// 1. wrapped decode: observe decoder results
		t := &trace{}
		var pw gopacket.Packet
		if w.Guard("NewPacket", func() {
			pw = gopacket.NewPacket(in, wrapDec{c.First.Dec, t}, o)
			pw.Layers()
		}) {
			continue
		}
		ls := pw.Layers()
		el := pw.ErrorLayer()
		okey := fmt.Sprintf("contract|%s|", c.First.Name)
		if t.failed != (el != nil) {
			w.Violation(okey+"failed-iff-errorlayer", fmt.Sprintf("a decoder failed=%v (%s) but ErrorLayer()!=nil is %v", t.failed, t.failedWhat, el != nil))
		}
		nerr := 0
		for _, l := range ls {
			if isErrLayer(l) {
				nerr++
			}
		}
		if el != nil {
			if len(ls) == 0 || ls[len(ls)-1] != gopacket.Layer(el) {
				w.Violation(okey+"errorlayer-is-last", "ErrorLayer() is not the last element of Layers()")
			}
			if nerr != 1 {
				w.Violation(okey+"single-failure-layer", fmt.Sprintf("%d layers are decode failures / error layers, want exactly 1", nerr))
			}
		} else if nerr != 0 {
			w.Violation(okey+"no-failure-layer-without-errorlayer", fmt.Sprintf("ErrorLayer()==nil but %d layers are decode failures / error layers", nerr))
		}
		// 1b. lazy packets: the contract must hold whatever is asked first. Fresh lazy packets on
		// which ErrorLayer() is the first call / follows ApplicationLayer() / follows a lookup
		// of an absent type; then Layers(): the error layer is its last element.
		if o.Lazy {
			for first := 0; first < 3; first++ {
				inl := c.Data
				if o.NoCopy {
					inl = corpus.Exact(c.Data)
				}
				w.Guard("lazy ErrorLayer first", func() {
					pl := gopacket.NewPacket(inl, c.First.Dec, o)
					switch first {
					case 1:
						pl.ApplicationLayer()
					case 2:
						pl.Layer(gopacket.LayerType(1999))
					}
					e1 := pl.ErrorLayer()
					if t.failed != (e1 != nil) {
						w.Violation(okey+"lazy-failed-iff-errorlayer", fmt.Sprintf("lazy packet, ErrorLayer() asked %s: a decoder failed=%v (%s) but ErrorLayer()!=nil is %v", [...]string{"first", "after ApplicationLayer()", "after Layer(absent type)"}[first], t.failed, t.failedWhat, e1 != nil))
					}
					l2 := pl.Layers()
					if e2 := pl.ErrorLayer(); (e2 != nil) != (e1 != nil) || (e2 != nil && (len(l2) == 0 || l2[len(l2)-1] != gopacket.Layer(e2))) {
						w.Violation(okey+"lazy-errorlayer-changes", "lazy packet: ErrorLayer() before and after Layers() disagree, or it is not the last layer")
					}
					if pp, ok := pl.(gopacket.PooledPacket); ok {
						pp.Dispose()
					}
				})
			}
		}
		// 2. plain decode + transparency self-check + accessor suite
		in2 := c.Data
		if o.NoCopy {
			in2 = corpus.Exact(c.Data)
		}
		var p gopacket.Packet
		if w.Guard("NewPacket", func() { p = gopacket.NewPacket(in2, c.First.Dec, o) }) {
			continue
		}
		accessors(p, w)
		if k == 2 {
			w.OutcomeString(c.First.Name + ":" + sig.TypeSeq(p))
		}
		// transparency self-check (not with Pool: a decoder that reads beyond len(data) sees
		// whatever the pool block held before, which differs between the two decodes; that
		// is C04's finding, not a property of the wrapper)
		var s1, s2 string
		if !o.Pool {
			w.Guard("sig", func() { s1, s2 = sig.Cheap(pw), sig.Cheap(p) })
		}
		if s1 != s2 {
			w.Count("wrapper_not_transparent", 1)
			w.Violation("harness|wrapper-not-transparent|"+c.First.Name, "wrapped and plain decode differ (harness self-check):\n"+s1+"\nvs\n"+s2)
		}
		if pp, ok := pw.(gopacket.PooledPacket); ok {
			pp.Dispose()
		}
	}
}

var quickVal = map[byte]bool{}

func main() {
	for _, v := range corpus.QuickValues {
		if v < 256 {
			quickVal[byte(v)] = true
		}
	}
	r := report.New("C01", "exploration")
	sp := dspace.Build(r.Thorough())
	n1opts := 4
	if r.Thorough() {
		n1opts = 16
	}
	// seedless strings: quick = all strings of length <=1, length-2 strings over the 22 literal
	// quick values, constant fills; thorough = all strings of length <=2 and fills.
	if !r.Thorough() {
		var sl [][]byte
		for _, d := range sp.Seedless {
			if len(d) == 2 && !(quickVal[d[0]] && quickVal[d[1]]) {
				continue
			}
			sl = append(sl, d)
		}
		sp.Seedless = sl
	}
	phases := []enum.Phase{
		{Name: "seedless", Len: sp.SeedlessLen(),
			Run: func(i int64, w *enum.Worker) {
				c := sp.SeedlessCase(i)
				n := 16
				if len(c.Data) == 2 {
					n = 4
				}
				runCase(c, n, w)
			},
			Describe: func(i int64) any { return sp.SeedlessCase(i).Describe() }},
		{Name: "neigh", Len: sp.NeighDeepLen(),
			Run: func(i int64, w *enum.Worker) {
				c := sp.NeighDeepCase(i)
				n := n1opts
				if c.Dev == 0 {
					n = 16
				}
				runCase(c, n, w)
			},
			Describe: func(i int64) any { return sp.NeighDeepCase(i).Describe() }},
		{Name: "cross", Len: sp.CrossLen(),
			Run:      func(i int64, w *enum.Worker) { runCase(sp.CrossCase(i), 4, w) },
			Describe: func(i int64) any { return sp.CrossCase(i).Describe() }},
	}
	r.Coverage["rule"] = "cases = (first layer, input) as in C19 (all strings <=2 bytes + constant fills x every first layer; deviation<=1 neighbourhoods of per-type seeds, with the length-field deviations beyond the first 96 [256] bytes to the end of the seed; every seed x every first layer) x decode option sets {Lazy,DSAD,NoCopy,Pool} (all 16 for seedless and unmodified seeds, Lazy x DSAD for deviation-1 in the quick tier) with recovery on; after each decode the full read-only accessor suite runs. Oracle: no panic, error-layer contract observed through a transparent wrapper PacketBuilder. distinct_nontrivial = distinct (first layer, layer-type sequence, error, truncated) outcomes."
	r.Coverage["first_layers"] = len(sp.Firsts)
	r.Coverage["per_type_seeds"] = len(sp.TSeeds)
	r.Assumptions = []string{"bounded time = no case consumes 120 s of CPU time (or blocks for 30 min); memory = RLIMIT_AS 6 GiB per worker", "the wrapper PacketBuilder is transparent (checked on every case: wrapped and plain decode give the same signature)", "inputs outside the enumerated neighbourhoods are not covered"}
	enum.Main(r, phases)
	r.Finish()
}
