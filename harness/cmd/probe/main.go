package main

import (
	"encoding/hex"
	"fmt"
	"os"
	"runtime/pprof"
	"strings"
	"time"

	"github.com/gopacket/gopacket"
	"github.com/gopacket/gopacket/layers"
)

func main() {
	b, _ := os.ReadFile("/tmp/hang1.hex")
	d, _ := hex.DecodeString(strings.TrimSpace(string(b)))
	go func() {
		time.Sleep(4 * time.Second)
		pprof.Lookup("goroutine").WriteTo(os.Stdout, 2)
		os.Exit(3)
	}()
	p := gopacket.NewPacket(d, layers.LinkTypeIEEE80211Radio, gopacket.DecodeOptions{DecodeStreamsAsDatagrams: true})
	fmt.Println("decoded", len(p.Layers()), p.ErrorLayer())
	for i, l := range p.Layers() {
		sl, ok := l.(gopacket.SerializableLayer)
		if !ok {
			continue
		}
		buf := gopacket.NewSerializeBuffer()
		pl, _ := buf.AppendBytes(len(l.LayerPayload()))
		copy(pl, l.LayerPayload())
		err := sl.SerializeTo(buf, gopacket.SerializeOptions{FixLengths: true, ComputeChecksums: true})
		fmt.Println("layer", i, l.LayerType(), "serialized", len(buf.Bytes()), err)
		if err == nil {
			p2 := gopacket.NewPacket(buf.Bytes(), l.LayerType(), gopacket.DecodeOptions{DecodeStreamsAsDatagrams: true})
			fmt.Println("  re-decoded", len(p2.Layers()), p2.ErrorLayer() != nil)
		}
	}
}
