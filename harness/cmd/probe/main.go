package main

import (
	"fmt"

	"github.com/gopacket/gopacket"
	"github.com/gopacket/gopacket/layers"

	"verif/engine/dspace"
)

func main() {
	sp := dspace.Build(false)
	fmt.Println("tseeds", len(sp.TSeeds), "neigh", sp.NeighLen())
	for _, t := range sp.TSeeds {
		p := gopacket.NewPacket(t.Data, t.First.Dec, gopacket.Default)
		if l := p.Layer(layers.LayerTypeRADIUS); l != nil {
			r := l.(*layers.RADIUS)
			var ts []int
			for _, a := range r.Attributes {
				ts = append(ts, int(a.Type))
			}
			fmt.Println(t.Name, t.First.Name, ts)
		}
	}
}
