package main

import (
	"fmt"
	"time"

	"verif/engine/dspace"
)

func main() {
	t := time.Now()
	sp := dspace.Build(false)
	fmt.Println(time.Since(t), len(sp.TSeeds), len(sp.Natural), sp.NeighLen())
	n := map[string]int{}
	for _, s := range sp.TSeeds {
		n[s.First.Name]++
	}
	fmt.Println(len(n), "types with seeds")
}
