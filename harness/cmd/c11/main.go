// C11 consists of one binary per assembler package.
package main

import "verif/engine/multi"

func main() { multi.Run("C11", "model_checking", []string{"c11t", "c11r"}) }
