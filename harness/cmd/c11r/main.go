// C11 (reassembly part): stream lifecycle and buffering are bounded and leak-free.
package main

import (
	"fmt"
	"os"
	"runtime"
	"runtime/debug"
	"runtime/pprof"
	"time"

	"github.com/gopacket/gopacket"
	"github.com/gopacket/gopacket/layers"
	"github.com/gopacket/gopacket/reassembly"

	"verif/engine/report"
	"verif/engine/statex"
)

const pageBytes = 1900

type kind int

const (
	kSYN kind = iota
	kDATA
	kFIN
	kRST
	kFO // FlushOlderThan(cut-off relative to now)
	kFA // FlushAll in the middle of a history
)

type event struct {
	k    kind
	c, d int // connection, direction
	a, b int // data range
	fin  bool
	rel  int // kFO: cut-off = (now - rel) seconds - 0.5s; 99 = before everything
}

func (e event) String() string {
	p := fmt.Sprintf("c%dd%d:", e.c, e.d)
	switch e.k {
	case kSYN:
		return p + "SYN"
	case kDATA:
		s := fmt.Sprintf("%sD[%d,%d)", p, e.a, e.b)
		if e.fin {
			s += "+FIN"
		}
		return s
	case kFIN:
		return p + "FIN"
	case kRST:
		if e.b == 1 {
			return fmt.Sprintf("%sRST@%d", p, e.a)
		}
		return p + "RST"
	case kFO:
		if e.rel == 99 {
			return "FlushOlder(before all)"
		}
		return fmt.Sprintf("FlushOlder(now-%d)", e.rel)
	}
	return "FlushAll"
}

type family struct {
	name   string
	n      int // stream length per direction
	alpha  []event
	depth  int
	limits [][2]int
}

func dataLetters(c, d, n int, cuts []int) []event {
	var out []event
	for i := 0; i < len(cuts); i++ {
		for j := i + 1; j < len(cuts); j++ {
			out = append(out, event{k: kDATA, c: c, d: d, a: cuts[i], b: cuts[j]})
			if cuts[j] == n {
				out = append(out, event{k: kDATA, c: c, d: d, a: cuts[i], b: cuts[j], fin: true})
			}
		}
	}
	return out
}

func families(thorough bool) []family {
	flush := []event{{k: kFO, rel: 0}, {k: kFO, rel: 1}, {k: kFO, rel: 2}, {k: kFO, rel: 99}}
	lim4 := [][2]int{{0, 0}, {1, 0}, {2, 0}, {0, 2}}
	// F1: one direction, 4-byte stream, every segment
	f1 := family{name: "one-direction", n: 4, depth: 5, limits: lim4}
	f1.alpha = append(f1.alpha, event{k: kSYN})
	f1.alpha = append(f1.alpha, dataLetters(0, 0, 4, []int{0, 1, 2, 3, 4})...)
	f1.alpha = append(f1.alpha, event{k: kFIN}, event{k: kRST}, event{k: kRST, a: 0, b: 1}, event{k: kRST, a: 2, b: 1})
	f1.alpha = append(f1.alpha, flush...)
	// F2: two connections x two directions, 2-byte streams
	// (both limits at once, the total one being the tighter: each half connection stays below its own limit)
	f2 := family{name: "two-connections", n: 2, depth: 4, limits: [][2]int{{0, 0}, {1, 0}, {0, 2}, {2, 1}}}
	for c := 0; c < 2; c++ {
		for d := 0; d < 2; d++ {
			f2.alpha = append(f2.alpha, event{k: kSYN, c: c, d: d})
			f2.alpha = append(f2.alpha, dataLetters(c, d, 2, []int{0, 1, 2})...)
			f2.alpha = append(f2.alpha, event{k: kFIN, c: c, d: d}, event{k: kRST, c: c, d: d}, event{k: kRST, c: c, d: d, a: 0, b: 1})
		}
	}
	f2.alpha = append(f2.alpha, event{k: kFO, rel: 0}, event{k: kFO, rel: 1}, event{k: kFO, rel: 99}, event{k: kFA})
	// F3: multi-page packets (2 and 3 pages)
	n3 := 2*pageBytes + 7
	f3 := family{name: "multi-page", n: n3, depth: 5, limits: [][2]int{{0, 0}, {1, 0}, {2, 0}, {3, 0}, {0, 2}, {0, 4}}}
	f3.alpha = append(f3.alpha, event{k: kSYN})
	f3.alpha = append(f3.alpha, dataLetters(0, 0, n3, []int{0, 1, pageBytes + 3, n3})...)
	f3.alpha = append(f3.alpha, event{k: kFIN}, event{k: kRST}, event{k: kRST, a: 0, b: 1}, event{k: kFO, rel: 0}, event{k: kFO, rel: 1})
	if thorough {
		f1.depth, f2.depth = 6, 5
		f2.limits = append(append([][2]int(nil), lim4...), [2]int{2, 1}, [2]int{3, 2})
	}
	return []family{f1, f2, f3}
}

// ---- harness ------------------------------------------------------------------

type stream struct {
	h         *harness
	hs        *hist
	completes int
	after     bool
	deliv     int
	calls     int
}

func (s *stream) Accept(tcp *layers.TCP, ci gopacket.CaptureInfo, dir reassembly.TCPFlowDirection, nextSeq reassembly.Sequence, start *bool, ac reassembly.AssemblerContext) bool {
	return true
}

func (s *stream) ReassembledSG(sg reassembly.ScatterGather, ac reassembly.AssemblerContext) {
	if s.hs != s.h.cur {
		s.h.stale = true
		return
	}
	if s.completes > 0 {
		s.after = true
	}
	s.deliv++
	hs := s.hs
	_, _, _, skip := sg.Info()
	if hs.inFO && skip != 0 && ac != nil {
		if seen := ac.GetCaptureInfo().Timestamp; !seen.Before(hs.cutoff) {
			hs.fail("age-flush-released-newer-data", fmt.Sprintf("FlushCloseOlderThan released data seen at +%v with skip %d although the cut-off is +%v", seen.Sub(hs.t0), skip, hs.cutoff.Sub(hs.t0)))
		}
	}
	if hs.keep {
		l, _ := sg.Lengths()
		s.calls++
		if l > 0 {
			if s.calls%2 == 1 {
				sg.KeepFrom(0)
			} else {
				sg.KeepFrom(l - 1)
			}
		}
	}
}

func (s *stream) ReassemblyComplete(ac reassembly.AssemblerContext) bool {
	s.completes++
	return s.hs.remove
}

type hist struct {
	t0           time.Time
	keep, remove bool
	streams      []*stream
	viol         string
	what         string
	step         int
	inFO         bool
	cutoff       time.Time
}

func (hs *hist) fail(k, w string) {
	if hs.viol == "" {
		hs.viol, hs.what = k, fmt.Sprintf("step %d: %s", hs.step, w)
	}
}

type harness struct {
	t0     time.Time // start time of the current history: time never goes backwards on a recycled instance
	pool   *reassembly.StreamPool
	asm    *reassembly.Assembler
	cur    *hist
	ctr    uint32
	stale  bool
	tcp    layers.TCP
	bufs   map[int][]byte
	resets int64
}

func (h *harness) New(a, b gopacket.Flow, tcp *layers.TCP, ac reassembly.AssemblerContext) reassembly.Stream {
	s := &stream{h: h, hs: h.cur}
	h.cur.streams = append(h.cur.streams, s)
	return s
}

func (h *harness) reset() {
	h.pool = reassembly.NewStreamPool(h)
	h.asm = reassembly.NewAssembler(h.pool)
	h.stale = false
	h.resets++
}

var epoch = time.Unix(1_000_000, 0)

func (h *harness) payload(a, b int) []byte {
	if h.bufs == nil {
		h.bufs = map[int][]byte{}
	}
	k := a<<16 | b
	if p, ok := h.bufs[k]; ok {
		return p
	}
	p := make([]byte, b-a)
	for i := range p {
		p[i] = byte('a' + (a+i)%26)
	}
	h.bufs[k] = p
	return p
}

type actx struct{ ci gopacket.CaptureInfo }

func (a *actx) GetCaptureInfo() gopacket.CaptureInfo { return a.ci }

func (h *harness) run(f *family, lim [2]int, beh int, seq []int) (hs *hist) {
	hs = &hist{keep: beh&1 != 0, remove: beh&2 == 0}
	h.cur = hs
	if h.t0.IsZero() {
		h.t0 = epoch
	}
	h.t0 = h.t0.Add(time.Duration(len(seq)+3) * time.Second)
	t0 := h.t0
	hs.t0 = t0
	h.asm.MaxBufferedPagesPerConnection, h.asm.MaxBufferedPagesTotal = lim[0], lim[1]
	h.ctr++
	defer func() {
		if r := recover(); r != nil {
			k, site := report.PanicKey(r, debug.Stack())
			hs.viol, hs.what = k, fmt.Sprintf("panic %v at %s (step %d)", r, site, hs.step)
			h.reset()
		}
	}()
	flow := func(c, d int) gopacket.Flow {
		x := h.ctr*2 + uint32(c)
		nf := gopacket.NewFlow(layers.EndpointIPv4, []byte{byte(x >> 24), byte(x >> 16), byte(x >> 8), byte(x)}, []byte{10, 0, 0, 1})
		if d == 1 {
			return nf.Reverse()
		}
		return nf
	}
	check := func() {
		for _, s := range hs.streams {
			if s.completes > 1 {
				hs.fail("completed-twice", fmt.Sprintf("a stream's ReassemblyComplete was called %d times", s.completes))
			}
			if s.after {
				hs.fail("data-after-completion", "Reassembled called on a stream after its ReassemblyComplete")
			}
		}
	}
	for i, li := range seq {
		e := f.alpha[li]
		hs.step = i
		now := t0.Add(time.Duration(i) * time.Second)
		switch e.k {
		case kFO:
			cut := now.Add(-time.Duration(e.rel)*time.Second - 500*time.Millisecond)
			if e.rel == 99 {
				cut = t0.Add(-time.Second)
			}
			hs.inFO, hs.cutoff = true, cut
			h.asm.FlushCloseOlderThan(cut)
			hs.inFO = false
			_, _, seen := reassembly.VerifHalfPages(h.pool)
			for _, s := range seen {
				if s != 0 && time.Unix(0, s).Before(cut) {
					hs.fail("age-flush-left-old-data", fmt.Sprintf("after FlushCloseOlderThan(+%v) a half connection still waits on data seen at +%v", cut.Sub(t0), time.Unix(0, s).Sub(t0)))
				}
			}
		case kFA:
			h.asm.FlushAll()
		default:
			isn := uint32(1000 * (e.d + 1))
			h.tcp = layers.TCP{SrcPort: layers.TCPPort(1 + e.d), DstPort: layers.TCPPort(2 - e.d)}
			var pl []byte
			switch e.k {
			case kSYN:
				h.tcp.Seq, h.tcp.SYN = isn, true
			case kDATA:
				h.tcp.Seq, h.tcp.FIN = isn+1+uint32(e.a), e.fin
				pl = h.payload(e.a, e.b)
			case kFIN:
				h.tcp.Seq, h.tcp.FIN = isn+1+uint32(f.n), true
			case kRST:
				// RST at the end of the stream, or (b == 1) at stream offset a: an abort in the
				// middle of the stream, possibly with later segments still queued
				pos := f.n
				if e.b == 1 {
					pos = e.a
				}
				h.tcp.Seq, h.tcp.RST = isn+1+uint32(pos), true
			}
			h.tcp.Payload = pl
			h.tcp.SetInternalPortsForTesting()
			h.asm.AssembleWithContext(flow(e.c, e.d), &h.tcp, &actx{gopacket.CaptureInfo{Timestamp: now}})
			pk := (len(pl) + pageBytes - 1) / pageBytes
			if pk == 0 {
				pk = 1
			}
			if lim[0] > 0 {
				pages, _, _ := reassembly.VerifHalfPages(h.pool)
				for _, p := range pages {
					if p > lim[0]+pk {
						hs.fail("per-connection-page-limit-exceeded", fmt.Sprintf("a half connection holds %d queued pages with MaxBufferedPagesPerConnection=%d and a packet of %d pages", p, lim[0], pk))
					}
				}
			}
			if lim[1] > 0 {
				if u := reassembly.VerifPagesUsed(h.asm); u > lim[1]+pk+savedPages(h.pool) {
					hs.fail("total-page-limit-exceeded", fmt.Sprintf("%d pages in use with MaxBufferedPagesTotal=%d and a packet of %d pages", u, lim[1], pk))
				}
			}
		}
		check()
	}
	hs.step = len(seq)
	h.asm.FlushAll()
	check()
	for _, s := range hs.streams {
		if s.completes != 1 {
			hs.fail("not-completed-exactly-once", fmt.Sprintf("after FlushAll a stream has %d completion callbacks", s.completes))
		}
	}
	dirty := false
	if n := reassembly.VerifConnCount(h.pool); n != 0 {
		dirty = true
		if hs.remove {
			hs.fail("connection-left-after-flushall", fmt.Sprintf("%d connections remain in the pool after FlushAll although every stream accepted removal", n))
		}
	}
	if u := reassembly.VerifPagesUsed(h.asm); u != 0 {
		hs.fail("pages-in-use-after-flushall", fmt.Sprintf("%d pages still in use after FlushAll", u))
		dirty = true
	}
	if dirty || h.stale {
		h.reset()
	}
	return hs
}

func savedPages(p *reassembly.StreamPool) int {
	_, saved, _ := reassembly.VerifHalfPages(p)
	n := 0
	for _, s := range saved {
		n += s
	}
	return n
}

func (hs *hist) summary() string {
	s := hs.viol
	for _, st := range hs.streams {
		s += fmt.Sprintf("|%d,%d,%v", st.completes, st.deliv, st.after)
	}
	return s
}

func describe(f *family, lim [2]int, beh int, seq []int) map[string]any {
	var ev []string
	for _, i := range seq {
		ev = append(ev, f.alpha[i].String())
	}
	return map[string]any{"package": "reassembly", "family": f.name, "max_pages_per_conn": lim[0], "max_pages_total": lim[1], "keepfrom": beh&1 != 0, "stream_declines_removal": beh&2 != 0, "behaviour": beh, "events": ev, "seq": append([]int(nil), seq...)}
}

func main() {
	r := report.New("C11", "model_checking")
	fams := families(r.Thorough())
	if rp := os.Getenv("VERIF_REPLAY"); rp != "" {
		var f struct {
			Replay struct {
				Package string `json:"package"`
				Family  string `json:"family"`
				PC      int    `json:"max_pages_per_conn"`
				PT      int    `json:"max_pages_total"`
				Beh     int    `json:"behaviour"`
				Seq     []int  `json:"seq"`
			} `json:"replay"`
		}
		report.ReadJSON(rp, &f)
		if f.Replay.Package != "reassembly" {
			os.Exit(0)
		}
		for i := range fams {
			if fams[i].name == f.Replay.Family {
				h := &harness{}
				h.reset()
				fmt.Println("replaying", describe(&fams[i], [2]int{f.Replay.PC, f.Replay.PT}, f.Replay.Beh, f.Replay.Seq))
				hs := h.run(&fams[i], [2]int{f.Replay.PC, f.Replay.PT}, f.Replay.Beh, f.Replay.Seq)
				if hs.viol != "" {
					fmt.Println("REPRODUCED", hs.viol, hs.what)
					os.Exit(1)
				}
				fmt.Println("no violation reproduced")
			}
		}
		os.Exit(0)
	}
	if pf := os.Getenv("VERIF_PROF"); pf != "" {
		f, _ := os.Create(pf)
		pprof.StartCPUProfile(f)
	}
	var curF *family
	var curLim [2]int
	var curBeh int
	var hangLocals []*report.Local
	statex.OnHang = func(seq []int) {
		r.Violation("c11|reassembly|hang|a history does not terminate", fmt.Sprintf("no progress for %v on one history", statex.HangAfter), 0, describe(curF, curLim, curBeh, seq))
		for _, l := range hangLocals {
			r.MergeLocal(l)
		}
		r.Exhaustive = false
		r.Coverage["states"], r.Coverage["transitions"], r.Coverage["traces_validated_against_impl"] = 1, 1, 0
		r.Coverage["samples"] = []any{describe(curF, curLim, curBeh, seq)}
		r.Finish()
	}
	workers := runtime.NumCPU()
	hs := make([]*harness, workers)
	locals := make([]*report.Local, workers)
	outc := make([]map[string]struct{}, workers)
	for i := range hs {
		hs[i] = &harness{}
		hs[i].reset()
		locals[i] = report.NewLocal()
		outc[i] = map[string]struct{}{}
	}
	hangLocals = locals
	diffCtr := make([]int64, workers)
	diffs := make([]int64, workers)
	var total, trans int64
	behs := []int{0, 1, 2}
	if r.Thorough() {
		behs = []int{0, 1, 2, 3}
	}
	var samples []any
	per := map[string]any{}
	for fi := range fams {
		f := &fams[fi]
		var ftotal int64
		for _, lim := range f.limits {
			for _, beh := range behs {
				lim, beh := lim, beh
				curF, curLim, curBeh = f, lim, beh
				depth := f.depth
				if !r.Thorough() && f.name == "one-direction" && (lim == [2]int{1, 0} || (beh&1 != 0 && lim == [2]int{0, 2})) {
					continue // quick tier: fewer limit settings for the largest family
				}
				if beh&2 != 0 {
					// a stream that declines removal leaves its connection in the pool, so every
					// history needs a brand-new pool (~1 ms): explored one event shorter and
					// without page limits
					if lim != [2]int{0, 0} {
						continue
					}
					depth--
				}
				cnt, complete := statex.Sequences(len(f.alpha), depth, workers, r.Expired, func(w int, seq []int) {
					h := hs[w].run(f, lim, beh, seq)
					diffCtr[w]++
					if diffCtr[w]%4099 == 0 {
						fresh := &harness{}
						fresh.reset()
						if h2 := fresh.run(f, lim, beh, seq); h2.summary() != h.summary() {
							locals[w].Add("c11|reassembly|differential|recycled assembler behaves differently from a fresh one", int64(len(seq)), func() (string, any) {
								return fmt.Sprintf("recycled: %q fresh: %q", h.summary(), h2.summary()), describe(f, lim, beh, seq)
							})
						}
						diffs[w]++
					}
					nc, nd := 0, 0
					for _, s := range h.streams {
						nc += s.completes
						nd += s.deliv
					}
					outc[w][fmt.Sprintf("%s/%d/%d/%d", f.name, len(h.streams), nc, nd)] = struct{}{}
					if h.viol != "" {
						key := fmt.Sprintf("c11|reassembly|%s|%s|keepfrom=%v", h.viol, f.name, beh&1 != 0)
						locals[w].Add(key, int64(len(seq))*10+int64(beh), func() (string, any) {
							d := describe(f, lim, beh, seq)
							return h.what + fmt.Sprintf("; limits %v keepfrom=%v declines_removal=%v; events %v", lim, beh&1 != 0, beh&2 != 0, d["events"]), d
						})
					}
				})
				ftotal += cnt
				if !complete {
					r.Exhaustive = false
				}
			}
		}
		total += ftotal
		trans += ftotal * int64(f.depth)
		per[f.name] = map[string]any{"histories": ftotal, "history_length": f.depth, "alphabet": fmt.Sprint(f.alpha), "limits": fmt.Sprint(f.limits)}
		samples = append(samples, describe(f, f.limits[1], 1, []int{0, 2, len(f.alpha) - 1, 1, 3, 0}[:f.depth]))
	}
	out := map[string]struct{}{}
	var resets int64
	for i := range hs {
		r.MergeLocal(locals[i])
		for k := range outc[i] {
			out[k] = struct{}{}
		}
		resets += hs[i].resets
	}
	pprof.StopCPUProfile()
	r.Coverage["states"] = total
	r.Coverage["transitions"] = trans
	r.Coverage["traces_validated_against_impl"] = total
	r.Coverage["families"] = per
	r.Coverage["distinct_outcomes"] = len(out)
	r.Coverage["instance_resets"] = resets
	var nd int64
	for _, d := range diffs {
		nd += d
	}
	r.Coverage["histories_rerun_on_fresh_instance_identical"] = nd
	r.Coverage["samples"] = samples
	r.Coverage["explanation"] = "reassembly (stream behaviours: KeepFrom on/off x accepts/declines removal): every history of the stated length over each family's alphabet (segments of one or several connections/directions, RST, age flushes with cut-offs before/between/after the arrivals, FlushAll) followed by a final FlushAll runs on the real assembler for every page-limit setting; a monitor using injected read-only accessors checks after every step: completion callback at most once and no data after it; page limits exceeded by at most the pages of the packet in hand; FlushCloseOlderThan leaves no connection waiting on data older than the cut-off and forces out no data newer than it; after FlushAll every stream completed exactly once, the pool is empty and no page is in use."
	r.Assumptions = []string{"accessors read pool/page-cache private state without modifying it", "recycled assembler: verified clean (empty pool, zero pages) after every history, replaced otherwise"}
	r.Finish()
}
