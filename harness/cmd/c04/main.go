// C04 consists of an input/option enumeration part and a pool history/schedule part,
// both built with the vsync shim so that the packet block pool is under harness control.
package main

import "verif/engine/multi"

func main() { multi.Run("C04", "model_checking", []string{"c04a", "c04s"}) }
