// Package sig computes observable signatures of packets and layers.
package sig

import (
	"fmt"
	"hash/fnv"
	"strings"

	"github.com/gopacket/gopacket"
)

func h64(b []byte) uint64 {
	f := fnv.New64a()
	f.Write(b)
	return f.Sum64()
}

// SafeLayerString is gopacket.LayerString with panics turned into a marker
// (rendering panics are C01's business; signatures must still be computable).
func SafeLayerString(l gopacket.Layer) (s string) {
	defer func() {
		if r := recover(); r != nil {
			s = "PANIC-IN-STRING"
		}
	}()
	return gopacket.LayerString(l)
}

// Layer renders one layer: type, contents, payload, rendered fields.
func Layer(l gopacket.Layer) string {
	if l == nil {
		return "<nil>"
	}
	s := fmt.Sprintf("%v c=%d:%x p=%d:%x %s", l.LayerType(), len(l.LayerContents()), h64(l.LayerContents()), len(l.LayerPayload()), h64(l.LayerPayload()), SafeLayerString(l))
	if e, ok := l.(gopacket.ErrorLayer); ok && e.Error() != nil {
		s += " err=" + e.Error().Error()
	}
	return s
}

func isNil(l any) bool {
	return l == nil || fmt.Sprintf("%p", l) == "%!p(<nil>)" || fmt.Sprint(l) == "<nil>"
}

// Packet renders everything observable about a packet through its read-only
// interface (forces full decoding of a lazy packet).
func Packet(p gopacket.Packet) string {
	var b strings.Builder
	ls := p.Layers()
	fmt.Fprintf(&b, "n=%d trunc=%v data=%d:%x\n", len(ls), p.Metadata().Truncated, len(p.Data()), h64(p.Data()))
	for i, l := range ls {
		fmt.Fprintf(&b, "%d %s\n", i, Layer(l))
	}
	idx := func(x gopacket.Layer) int {
		for i, l := range ls {
			if l == x {
				return i
			}
		}
		return -1
	}
	if l := p.LinkLayer(); l != nil {
		fmt.Fprintf(&b, "link=%d %v\n", idx(l), l.LinkFlow())
	}
	if l := p.NetworkLayer(); l != nil {
		fmt.Fprintf(&b, "net=%d %v\n", idx(l), l.NetworkFlow())
	}
	if l := p.TransportLayer(); l != nil {
		fmt.Fprintf(&b, "tra=%d %v\n", idx(l), l.TransportFlow())
	}
	if l := p.ApplicationLayer(); l != nil {
		fmt.Fprintf(&b, "app=%d %d\n", idx(l), len(l.Payload()))
	}
	if l := p.ErrorLayer(); l != nil {
		fmt.Fprintf(&b, "err=%d %v\n", idx(l), l.Error())
	}
	return b.String()
}

// TypeSeq is the coarse outcome signature: layer types and error class.
func TypeSeq(p gopacket.Packet) string {
	var b strings.Builder
	for _, l := range p.Layers() {
		b.WriteString(l.LayerType().String())
		b.WriteByte('/')
	}
	if p.ErrorLayer() != nil {
		b.WriteString("E")
	}
	if p.Metadata().Truncated {
		b.WriteString("T")
	}
	return b.String()
}

// Cheap is a rendering-free signature: layer types, contents/payload hashes,
// error text, truncation flag.
func Cheap(p gopacket.Packet) string {
	var b strings.Builder
	for _, l := range p.Layers() {
		fmt.Fprintf(&b, "%v %d:%x %d:%x|", l.LayerType(), len(l.LayerContents()), h64(l.LayerContents()), len(l.LayerPayload()), h64(l.LayerPayload()))
	}
	if e := p.ErrorLayer(); e != nil {
		fmt.Fprintf(&b, "E:%v", e.Error())
	}
	fmt.Fprintf(&b, " T:%v", p.Metadata().Truncated)
	return b.String()
}
