// Package sig computes observable signatures of packets and layers.
package sig

import (
	"fmt"
	"hash/fnv"
	"reflect"
	"sort"
	"strings"
	"unsafe"

	"github.com/gopacket/gopacket"
)

func h64(b []byte) uint64 {
	f := fnv.New64a()
	f.Write(b)
	return f.Sum64()
}

// SafeLayerString is gopacket.LayerString with panics turned into a marker
// (rendering panics are C01's business; signatures must still be computable).
func SafeLayerString(l gopacket.Layer) (s string) {
	defer func() {
		if r := recover(); r != nil {
			s = "PANIC-IN-STRING"
		}
	}()
	return gopacket.LayerString(l)
}

// Layer renders one layer: type, contents, payload, rendered fields.
func Layer(l gopacket.Layer) string {
	if l == nil {
		return "<nil>"
	}
	s := fmt.Sprintf("%v c=%d:%x p=%d:%x %s", l.LayerType(), len(l.LayerContents()), h64(l.LayerContents()), len(l.LayerPayload()), h64(l.LayerPayload()), SafeLayerString(l))
	if e, ok := l.(gopacket.ErrorLayer); ok && e.Error() != nil {
		s += " err=" + e.Error().Error()
	}
	return s
}

func isNil(l any) bool {
	return l == nil || fmt.Sprintf("%p", l) == "%!p(<nil>)" || fmt.Sprint(l) == "<nil>"
}

// Packet renders everything observable about a packet through its read-only
// interface (forces full decoding of a lazy packet).
func Packet(p gopacket.Packet) string {
	var b strings.Builder
	ls := p.Layers()
	fmt.Fprintf(&b, "n=%d trunc=%v data=%d:%x\n", len(ls), p.Metadata().Truncated, len(p.Data()), h64(p.Data()))
	for i, l := range ls {
		fmt.Fprintf(&b, "%d %s\n", i, Layer(l))
	}
	idx := func(x gopacket.Layer) int {
		for i, l := range ls {
			if l == x {
				return i
			}
		}
		return -1
	}
	if l := p.LinkLayer(); l != nil {
		fmt.Fprintf(&b, "link=%d %v\n", idx(l), l.LinkFlow())
	}
	if l := p.NetworkLayer(); l != nil {
		fmt.Fprintf(&b, "net=%d %v\n", idx(l), l.NetworkFlow())
	}
	if l := p.TransportLayer(); l != nil {
		fmt.Fprintf(&b, "tra=%d %v\n", idx(l), l.TransportFlow())
	}
	if l := p.ApplicationLayer(); l != nil {
		fmt.Fprintf(&b, "app=%d %d\n", idx(l), len(l.Payload()))
	}
	if l := p.ErrorLayer(); l != nil {
		fmt.Fprintf(&b, "err=%d %v\n", idx(l), l.Error())
	}
	return b.String()
}

// TypeSeq is the coarse outcome signature: layer types and error class.
func TypeSeq(p gopacket.Packet) string {
	var b strings.Builder
	for _, l := range p.Layers() {
		b.WriteString(l.LayerType().String())
		b.WriteByte('/')
	}
	if p.ErrorLayer() != nil {
		b.WriteString("E")
	}
	if p.Metadata().Truncated {
		b.WriteString("T")
	}
	return b.String()
}

// Cheap is a rendering-free signature: layer types, contents/payload hashes,
// error text, truncation flag.
func Cheap(p gopacket.Packet) string {
	var b strings.Builder
	for _, l := range p.Layers() {
		fmt.Fprintf(&b, "%v %d:%x %d:%x|", l.LayerType(), len(l.LayerContents()), h64(l.LayerContents()), len(l.LayerPayload()), h64(l.LayerPayload()))
	}
	if e := p.ErrorLayer(); e != nil {
		fmt.Fprintf(&b, "E:%v", e.Error())
	}
	fmt.Fprintf(&b, " T:%v", p.Metadata().Truncated)
	return b.String()
}

// Deep renders every field of a value (exported and unexported, through
// pointers, slices by content, nil slice == empty slice) into a canonical
// string. Fields named in skip are omitted.
func Deep(v any, skip map[string]bool) string {
	var b strings.Builder
	deep(&b, reflect.ValueOf(v), skip, 0)
	return b.String()
}

// DeepExported is Deep restricted to exported fields (at every level): the
// state a user of the value can observe directly.
func DeepExported(v any, skip map[string]bool) string {
	s := map[string]bool{"\x00exported-only": true}
	for k, x := range skip {
		s[k] = x
	}
	var b strings.Builder
	deep(&b, reflect.ValueOf(v), s, 0)
	return b.String()
}

func deep(b *strings.Builder, v reflect.Value, skip map[string]bool, depth int) {
	if depth > 8 {
		b.WriteString("...")
		return
	}
	if !v.IsValid() {
		b.WriteString("<invalid>")
		return
	}
	switch v.Kind() {
	case reflect.Ptr:
		if v.IsNil() {
			b.WriteString("nil")
			return
		}
		b.WriteByte('&')
		deep(b, v.Elem(), skip, depth+1)
	case reflect.Interface:
		if v.IsNil() {
			b.WriteString("nil")
			return
		}
		b.WriteString(v.Elem().Type().String())
		b.WriteByte(':')
		deep(b, v.Elem(), skip, depth+1)
	case reflect.Struct:
		t := v.Type()
		b.WriteString(t.Name())
		b.WriteByte('{')
		for i := 0; i < v.NumField(); i++ {
			f := t.Field(i)
			if skip[f.Name] || skip[f.Type.String()] {
				continue
			}
			if skip["\x00exported-only"] && f.PkgPath != "" && !f.Anonymous {
				continue
			}
			fv := v.Field(i)
			if !fv.CanInterface() {
				if !fv.CanAddr() {
					// make the struct addressable to read unexported fields
					c := reflect.New(t).Elem()
					c.Set(v)
					fv = c.Field(i)
				}
				fv = reflect.NewAt(fv.Type(), unsafe.Pointer(fv.UnsafeAddr())).Elem()
			}
			b.WriteString(f.Name)
			b.WriteByte('=')
			deep(b, fv, skip, depth+1)
			b.WriteByte(' ')
		}
		b.WriteByte('}')
	case reflect.Slice, reflect.Array:
		if v.Kind() == reflect.Slice && v.Type().Elem().Kind() == reflect.Uint8 {
			fmt.Fprintf(b, "x%x", v.Bytes())
			return
		}
		fmt.Fprintf(b, "[%d:", v.Len())
		for i := 0; i < v.Len(); i++ {
			deep(b, v.Index(i), skip, depth+1)
			b.WriteByte(',')
		}
		b.WriteByte(']')
	case reflect.Map:
		keys := v.MapKeys()
		ks := make([]string, len(keys))
		for i, k := range keys {
			var kb strings.Builder
			deep(&kb, k, skip, depth+1)
			var vb strings.Builder
			deep(&vb, v.MapIndex(k), skip, depth+1)
			ks[i] = kb.String() + "=>" + vb.String()
		}
		sort.Strings(ks)
		fmt.Fprintf(b, "map%v", ks)
	case reflect.Func, reflect.Chan, reflect.UnsafePointer:
		b.WriteString("-")
	case reflect.String:
		fmt.Fprintf(b, "%q", v.String())
	case reflect.Bool:
		fmt.Fprintf(b, "%v", v.Bool())
	case reflect.Int, reflect.Int8, reflect.Int16, reflect.Int32, reflect.Int64:
		fmt.Fprintf(b, "%d", v.Int())
	case reflect.Uint, reflect.Uint8, reflect.Uint16, reflect.Uint32, reflect.Uint64, reflect.Uintptr:
		fmt.Fprintf(b, "%d", v.Uint())
	case reflect.Float32, reflect.Float64:
		fmt.Fprintf(b, "%v", v.Float())
	default:
		fmt.Fprintf(b, "?%v", v.Kind())
	}
}
