// Package dspace builds the decode case spaces shared by C01, C02, C04, C19:
// (first layer, input bytes) pairs from seedless strings, per-type seeds and
// their deviation-1 neighbourhoods.
package dspace

import (
	"encoding/hex"

	"verif/engine/corpus"
)

type Case struct {
	First   corpus.First
	Data    []byte
	Dev     int
	Seed    string
	SeedIdx int // index into Spaces.TSeeds, -1 if none
}

func (c Case) Describe() map[string]any {
	return map[string]any{"first": c.First.Name, "hex": hex.EncodeToString(c.Data[:min(len(c.Data), 4096)]), "len": len(c.Data), "seed": c.Seed, "deviations": c.Dev}
}

// Spaces holds the three input families.
type Spaces struct {
	Firsts   []corpus.First
	Seedless [][]byte       // run against every first layer
	TSeeds   []corpus.TSeed // per-type seeds
	Neigh    *corpus.Neighbourhood
	cum      []int64
	Natural  []corpus.Seed
	Deep     corpus.Deep
	dcum     []int64
}

func Build(thorough bool) *Spaces {
	s := &Spaces{Firsts: corpus.Firsts()}
	s.Natural = corpus.Natural()
	if thorough {
		s.Seedless = corpus.Seedless(2, 128)
		s.TSeeds = corpus.PerType(s.Natural, 40)
		n := corpus.ThoroughNeigh
		s.Neigh = &n
	} else {
		s.Seedless = corpus.Seedless(2, 100)
		s.TSeeds = corpus.PerType(s.Natural, 10)
		n := corpus.QuickNeigh
		s.Neigh = &n
	}
	s.cum = make([]int64, len(s.TSeeds)+1)
	for i, t := range s.TSeeds {
		s.cum[i+1] = s.cum[i] + s.Neigh.Count(len(t.Data))
	}
	s.Deep = corpus.Deep{H: s.Neigh.H, Cap: 1600}
	if thorough {
		s.Deep.Cap = 1 << 16
	}
	s.dcum = make([]int64, len(s.TSeeds)+1)
	for i, t := range s.TSeeds {
		s.dcum[i+1] = s.dcum[i] + s.Deep.Count(len(t.Data))
	}
	return s
}

// DeepLen: per-type seeds x the length-field deviations beyond the header region (corpus.Deep).
func (s *Spaces) DeepLen() int64 { return s.dcum[len(s.TSeeds)] }
func (s *Spaces) DeepCase(i int64) Case {
	lo, hi := 0, len(s.TSeeds)
	for lo < hi {
		m := (lo + hi) / 2
		if s.dcum[m+1] > i {
			hi = m
		} else {
			lo = m + 1
		}
	}
	t := s.TSeeds[lo]
	return Case{First: t.First, Data: s.Deep.Variant(t.Data, i-s.dcum[lo]), Dev: 1, Seed: t.Name + " (beyond the header region)", SeedIdx: lo}
}

// NeighDeepLen/NeighDeepCase: the neighbourhoods followed by the deviations beyond the header region.
func (s *Spaces) NeighDeepLen() int64 { return s.NeighLen() + s.DeepLen() }
func (s *Spaces) NeighDeepCase(i int64) Case {
	if i < s.NeighLen() {
		return s.NeighCase(i)
	}
	return s.DeepCase(i - s.NeighLen())
}

// SeedlessLen: every first layer x every seedless string.
func (s *Spaces) SeedlessLen() int64 { return int64(len(s.Firsts)) * int64(len(s.Seedless)) }
func (s *Spaces) SeedlessCase(i int64) Case {
	f := s.Firsts[i%int64(len(s.Firsts))]
	return Case{First: f, Data: s.Seedless[i/int64(len(s.Firsts))], Seed: "seedless", SeedIdx: -1}
}

// NeighLen: per-type seeds x their neighbourhood.
func (s *Spaces) NeighLen() int64 { return s.cum[len(s.TSeeds)] }
func (s *Spaces) NeighCase(i int64) Case {
	lo, hi := 0, len(s.TSeeds)
	for lo < hi {
		m := (lo + hi) / 2
		if s.cum[m+1] > i {
			hi = m
		} else {
			lo = m + 1
		}
	}
	t := s.TSeeds[lo]
	d, dev := s.Neigh.Variant(t.Data, i-s.cum[lo])
	return Case{First: t.First, Data: d, Dev: dev, Seed: t.Name, SeedIdx: lo}
}

// CrossLen: every per-type seed (unmodified) x every first layer.
func (s *Spaces) CrossLen() int64 { return int64(len(s.Firsts)) * int64(len(s.TSeeds)) }
func (s *Spaces) CrossCase(i int64) Case {
	f := s.Firsts[i%int64(len(s.Firsts))]
	t := s.TSeeds[i/int64(len(s.Firsts))]
	return Case{First: f, Data: t.Data, Seed: t.Name + " (cross-type)", SeedIdx: int(i / int64(len(s.Firsts)))}
}
