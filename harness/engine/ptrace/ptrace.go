// Package ptrace is a transparent wrapper PacketBuilder that records, for a
// packet decode, which decoder call failed and during which call SetTruncated
// was invoked (calls are identified by the number of layers the packet held
// when they started).
package ptrace

import "github.com/gopacket/gopacket"

type Call struct {
	Start  int
	Failed bool
}

type Trace struct {
	N      int
	Calls  []Call
	Trunc  []int
	active []int
}

type dec struct {
	inner gopacket.Decoder
	t     *Trace
}

// Wrap returns a decoder that decodes like d and records into t.
func Wrap(d gopacket.Decoder, t *Trace) gopacket.Decoder { return dec{d, t} }

type pb struct {
	gopacket.PacketBuilder
	t *Trace
}

func (w *pb) AddLayer(l gopacket.Layer) { w.t.N++; w.PacketBuilder.AddLayer(l) }
func (w *pb) SetTruncated() {
	if len(w.t.active) > 0 {
		w.t.Trunc = append(w.t.Trunc, w.t.Calls[w.t.active[len(w.t.active)-1]].Start)
	}
	w.PacketBuilder.SetTruncated()
}
func (w *pb) NextDecoder(next gopacket.Decoder) error {
	if next == nil {
		return w.PacketBuilder.NextDecoder(nil)
	}
	return w.PacketBuilder.NextDecoder(dec{next, w.t})
}

func (w dec) Decode(data []byte, b gopacket.PacketBuilder) error {
	real := b
	if x, ok := b.(*pb); ok {
		real = x.PacketBuilder
	}
	idx := len(w.t.Calls)
	w.t.Calls = append(w.t.Calls, Call{Start: w.t.N})
	w.t.active = append(w.t.active, idx)
	returned := false
	defer func() {
		if !returned {
			w.t.Calls[idx].Failed = true
		}
		w.t.active = w.t.active[:len(w.t.active)-1]
	}()
	err := w.inner.Decode(data, &pb{PacketBuilder: real, t: w.t})
	returned = true
	if err != nil {
		w.t.Calls[idx].Failed = true
	}
	return err
}

// FailAt returns the layer index at which decoding failed (the start index of the
// innermost failing call), or -1.
func (t *Trace) FailAt() int {
	inner := -1
	for _, c := range t.Calls {
		if c.Failed && c.Start > inner {
			inner = c.Start
		}
	}
	return inner
}

// TruncatedBy reports whether SetTruncated was called by a decoder call that started at layer index <= last.
func (t *Trace) TruncatedBy(last int) bool {
	for _, s := range t.Trunc {
		if s <= last {
			return true
		}
	}
	return false
}
