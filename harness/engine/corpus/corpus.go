// Package corpus loads the seed corpus and builds the bounded input
// neighbourhoods (DESIGN.md section 4) as indexable case spaces.
package corpus

import (
	"bufio"
	"encoding/hex"
	"encoding/json"
	"fmt"
	"os"
	"path/filepath"
	"sort"
	"strconv"
	"strings"

	"github.com/gopacket/gopacket"
	"github.com/gopacket/gopacket/layers"

	"verif/engine/report"
)

// First is a first-layer decoder with a stable name.
type First struct {
	Name string
	Dec  gopacket.Decoder
	LT   gopacket.LayerType // 0 if not a layer type (link type)
}

// Firsts returns every registered layer type (by scanning the registry range)
// and every link type that has a decoder, in a deterministic order.
func Firsts() []First {
	var out []First
	for i := 0; i < 2000; i++ {
		lt := gopacket.LayerType(i)
		if lt.String() == strconv.Itoa(i) {
			continue
		}
		out = append(out, First{Name: "LayerType:" + lt.String(), Dec: lt, LT: lt})
	}
	for i := 0; i < 256; i++ {
		if layers.LinkTypeMetadata[i].DecodeWith != nil {
			out = append(out, First{Name: "LinkType:" + strconv.Itoa(i), Dec: layers.LinkType(i)})
		}
	}
	return out
}

var firstByName map[string]First

func FirstByName(n string) (First, bool) {
	if firstByName == nil {
		firstByName = map[string]First{}
		for _, f := range Firsts() {
			firstByName[f.Name] = f
		}
	}
	f, ok := firstByName[n]
	return f, ok
}

// resolve maps the expression text found in a test's NewPacket call.
func resolve(expr string) (First, bool) {
	switch {
	case strings.HasPrefix(expr, "link:"):
		return FirstByName("LinkType:" + strings.TrimPrefix(expr, "link:"))
	case strings.HasPrefix(expr, "LinkType"):
		m := map[string]layers.LinkType{
			"LinkTypeEthernet": layers.LinkTypeEthernet, "LinkTypeIEEE80211Radio": layers.LinkTypeIEEE80211Radio,
			"LinkTypeRaw": layers.LinkTypeRaw, "LinkTypeNull": layers.LinkTypeNull, "LinkTypePrismHeader": layers.LinkTypePrismHeader,
			"LinkTypeLinuxUSB": layers.LinkTypeLinuxUSB, "LinkTypeLinuxSLL2": layers.LinkTypeLinuxSLL2, "LinkTypeLinuxSLL": layers.LinkTypeLinuxSLL,
			"LinkTypePFLog": layers.LinkTypePFLog, "LinkTypeIEEE802_11": layers.LinkTypeIEEE802_11, "LinkTypePPP": layers.LinkTypePPP,
			"LinkTypeFDDI": layers.LinkTypeFDDI, "LinkTypeLoop": layers.LinkTypeLoop,
		}
		if lt, ok := m[expr]; ok {
			return FirstByName("LinkType:" + strconv.Itoa(int(lt)))
		}
	case strings.HasPrefix(expr, "LayerType"):
		want := strings.TrimPrefix(expr, "LayerType")
		for _, f := range Firsts() {
			if f.LT != 0 && strings.EqualFold(strings.NewReplacer(" ", "", "-", "", "_", "", ".", "").Replace(f.LT.String()), want) {
				return f, true
			}
		}
	}
	return First{}, false
}

type Seed struct {
	Name  string
	First First
	Data  []byte
}

type rawSeed struct {
	Name, File, First, Hex string
}

// Natural returns the natural seeds: fixtures with their first layer. Seeds
// whose first layer is not recorded are tried against every first layer and
// kept under the (at most two) that decode the most layers without an error.
func Natural() []Seed {
	f, err := os.Open(filepath.Join(report.Root(), "corpus", "seeds.jsonl"))
	if err != nil {
		panic(err)
	}
	defer f.Close()
	var out []Seed
	firsts := Firsts()
	sc := bufio.NewScanner(f)
	sc.Buffer(make([]byte, 1<<20), 1<<24)
	for sc.Scan() {
		var rs rawSeed
		if json.Unmarshal(sc.Bytes(), &rs) != nil {
			continue
		}
		data, _ := hex.DecodeString(rs.Hex)
		if rs.First != "" {
			if fl, ok := resolve(rs.First); ok {
				out = append(out, Seed{Name: rs.Name, First: fl, Data: data})
				// a fixture whose recorded first layer fails at once was recorded with the type the
				// test looks up, not the one it decodes from: it is also tried against every first
				// layer like an unrecorded one
				if decodeScore(data, fl) > 0 {
					continue
				}
			}
		}
		if len(data) < 4 {
			continue
		}
		type cand struct {
			f First
			n int
		}
		var cs []cand
		for _, fl := range firsts {
			n := decodeScore(data, fl)
			if n >= 2 {
				cs = append(cs, cand{fl, n})
			}
		}
		sort.SliceStable(cs, func(i, j int) bool { return cs[i].n > cs[j].n })
		for i := 0; i < len(cs) && i < 2; i++ {
			out = append(out, Seed{Name: rs.Name, First: cs[i].f, Data: data})
		}
	}
	return out
}

func decodeScore(data []byte, fl First) (n int) {
	defer func() {
		if recover() != nil {
			n = 0
		}
	}()
	p := gopacket.NewPacket(data, fl.Dec, gopacket.DecodeOptions{DecodeStreamsAsDatagrams: true})
	if p.ErrorLayer() != nil {
		return 0
	}
	for _, l := range p.Layers() {
		if l.LayerType() != gopacket.LayerTypePayload && l.LayerType() != gopacket.LayerTypeFragment {
			n++
		}
	}
	return n
}

// TSeed is a seed for one layer type used as first decoder.
type TSeed struct {
	First First
	Data  []byte
	Name  string
}

// PerType derives per-layer-type seeds: each natural seed is decoded eagerly,
// and for every layer L of type T, L.contents ++ L.payload is a seed of T.
// De-duplicated by (T, first 48 bytes, length); at most maxPerType per type.
func PerType(nat []Seed, maxPerType int) []TSeed {
	var out []TSeed
	seen := map[string]bool{}
	count := map[string]int{}
	add := func(fl First, d []byte, name string) {
		if len(d) == 0 || len(d) > 2048 {
			return
		}
		k := fl.Name + "|" + strconv.Itoa(len(d)) + "|" + string(d[:min(len(d), 48)])
		// hand-built idiom seeds (cmd/mkidioms) are few and always kept
		if seen[k] || (count[fl.Name] >= maxPerType && !strings.HasPrefix(name, "idiom:")) {
			return
		}
		seen[k] = true
		count[fl.Name]++
		out = append(out, TSeed{First: fl, Data: exact(d), Name: name})
	}
	for _, s := range nat {
		add(s.First, s.Data, s.Name)
	}
	for _, s := range nat {
		func() {
			defer func() { recover() }()
			for _, dsad := range []bool{true, false} {
				p := gopacket.NewPacket(s.Data, s.First.Dec, gopacket.DecodeOptions{DecodeStreamsAsDatagrams: dsad})
				for i, l := range p.Layers() {
					if i == 0 || l.LayerType() == gopacket.LayerTypeDecodeFailure {
						continue
					}
					fl, ok := FirstByName("LayerType:" + l.LayerType().String())
					if !ok {
						continue
					}
					d := append(append([]byte(nil), l.LayerContents()...), l.LayerPayload()...)
					add(fl, d, fmt.Sprintf("%s/L%d", s.Name, i))
				}
			}
		}()
	}
	sort.SliceStable(out, func(i, j int) bool {
		if len(out[i].Data) != len(out[j].Data) {
			return len(out[i].Data) < len(out[j].Data)
		}
		return out[i].First.Name < out[j].First.Name
	})
	return out
}
