package corpus

import (
	"encoding/binary"
	"sort"
)

// Neighbourhood enumerates the deviation-1 neighbourhood of a byte string
// (plus the string itself, index 0). All variants are produced from the index
// alone, so a space over many seeds is indexable without materialising it.
//
//	0                       the seed
//	prefixes                s[:k] for 0 <= k < len
//	substitutions           byte i < H replaced by value set V (values equal to the original are still run: harmless duplicates of the seed)
//	windows                 every 16-bit window (at every offset: length fields of TLVs and records sit at odd offsets as often as at even ones) and every 4-aligned 32-bit window < H overwritten with {0,1,len,len-1,len+1,max} big endian, and the 16-bit ones little endian too
//	extensions              s ++ n filler bytes for (n, fill) in Ext
type Neighbourhood struct {
	H      int   // header region for substitutions and windows
	Values []int // substitution values: 0..255 literal; 256 = b+1; 257 = b-1; 258 = b^0x80; 259 = b^1
	Ext    []ExtSpec
}

type ExtSpec struct {
	N    int
	Fill byte
}

var QuickValues = []int{0, 1, 2, 3, 4, 5, 7, 8, 0x0f, 0x10, 0x1e, 0x1f, 0x20, 0x3f, 0x40, 0x7f, 0x80, 0x81, 0xc0, 0xf0, 0xfe, 0xff, 256, 257}

func AllValues() []int {
	v := make([]int, 256)
	for i := range v {
		v[i] = i
	}
	return v
}

var QuickNeigh = Neighbourhood{H: 96, Values: QuickValues, Ext: []ExtSpec{{1, 0}, {3, 0xff}, {1500, 0}}}
var ThoroughNeigh = Neighbourhood{H: 256, Values: AllValues(), Ext: []ExtSpec{{1, 0}, {3, 0xff}, {1500, 0}, {9000, 0xff}, {65535, 0}}}

var winVals = 6

func (n *Neighbourhood) counts(l int) (pre, sub, w16, w32, ext int) {
	h := min(l, n.H)
	pre = l
	sub = h * len(n.Values)
	w16 = max(h-1, 0) * winVals * 2
	w32 = (h / 4) * winVals
	ext = len(n.Ext)
	return
}

// Count is the number of variants of a seed of length l (including itself).
func (n *Neighbourhood) Count(l int) int64 {
	pre, sub, w16, w32, ext := n.counts(l)
	return int64(1 + pre + sub + w16 + w32 + ext)
}

func winVal(k int, l int, bits uint) uint32 {
	switch k {
	case 0:
		return 0
	case 1:
		return 1
	case 2:
		return uint32(l)
	case 3:
		return uint32(l - 1)
	case 4:
		return uint32(l + 1)
	}
	return 0xffffffff >> (32 - bits)
}

// Variant writes variant j of seed s into a fresh slice and a short label.
func (n *Neighbourhood) Variant(s []byte, j int64) (out []byte, dev int) {
	if j == 0 {
		return exact(s), 0
	}
	j--
	pre, sub, w16, w32, _ := n.counts(len(s))
	if j < int64(pre) {
		return exact(s[:j]), 1
	}
	j -= int64(pre)
	if j < int64(sub) {
		i, vi := int(j)/len(n.Values), int(j)%len(n.Values)
		out = exact(s)
		v := n.Values[vi]
		switch v {
		case 256:
			out[i]++
		case 257:
			out[i]--
		case 258:
			out[i] ^= 0x80
		case 259:
			out[i] ^= 1
		default:
			out[i] = byte(v)
		}
		return out, 1
	}
	j -= int64(sub)
	if j < int64(w16) {
		k := int(j) % winVals
		le := (int(j) / winVals) % 2
		pos := int(j) / (winVals * 2)
		out = exact(s)
		v := uint16(winVal(k, len(s), 16))
		if le == 1 {
			binary.LittleEndian.PutUint16(out[pos:], v)
		} else {
			binary.BigEndian.PutUint16(out[pos:], v)
		}
		return out, 1
	}
	j -= int64(w16)
	if j < int64(w32) {
		k := int(j) % winVals
		pos := (int(j) / winVals) * 4
		out = exact(s)
		binary.BigEndian.PutUint32(out[pos:], winVal(k, len(s), 32))
		return out, 1
	}
	j -= int64(w32)
	e := n.Ext[j]
	out = make([]byte, len(s)+e.N)
	copy(out, s)
	for i := len(s); i < len(out); i++ {
		out[i] = e.Fill
	}
	return out, 1
}

// Space is the concatenation of the neighbourhoods of a list of byte strings.
type Space struct {
	N     *Neighbourhood
	Seeds [][]byte
	cum   []int64
}

func NewSpace(n *Neighbourhood, seeds [][]byte) *Space {
	s := &Space{N: n, Seeds: seeds, cum: make([]int64, len(seeds)+1)}
	for i, d := range seeds {
		s.cum[i+1] = s.cum[i] + n.Count(len(d))
	}
	return s
}

func (s *Space) Len() int64 { return s.cum[len(s.Seeds)] }

// Get returns (seed index, variant bytes, deviations).
func (s *Space) Get(i int64) (int, []byte, int) {
	k := sort.Search(len(s.Seeds), func(k int) bool { return s.cum[k+1] > i })
	d, dev := s.N.Variant(s.Seeds[k], i-s.cum[k])
	return k, d, dev
}

// Seedless returns all byte strings of length <= maxLen plus constant fills
// (12 values) of every length 0..fillMax.
func Seedless(maxLen, fillMax int) [][]byte {
	var out [][]byte
	out = append(out, []byte{})
	var rec func(prefix []byte, l int)
	rec = func(prefix []byte, l int) {
		if len(prefix) == l {
			out = append(out, exact(prefix))
			return
		}
		for b := 0; b < 256; b++ {
			rec(append(prefix, byte(b)), l)
		}
	}
	for l := 1; l <= maxLen; l++ {
		rec(nil, l)
	}
	for _, v := range []byte{0, 1, 2, 4, 8, 0x0f, 0x45, 0x60, 0x7f, 0x80, 0xaa, 0xff} {
		for l := maxLen + 1; l <= fillMax; l++ {
			b := make([]byte, l)
			for i := range b {
				b[i] = v
			}
			out = append(out, b)
		}
	}
	return out
}

// exact copies b into a slice whose capacity equals its length, so a decoder
// that slices beyond len(data) faults instead of silently reading whatever the
// allocator left behind the input.
func exact(b []byte) []byte {
	o := make([]byte, len(b))
	copy(o, b)
	return o
}

// Exact is exact for other packages.
func Exact(b []byte) []byte { return exact(b) }

// Deep is the part of the deviation-1 neighbourhood that lies beyond the header region H of
// Neighbourhood: for every position from H to the end of the seed (at most Cap), the length-field
// deviations only - every 16-bit window, both byte orders, overwritten with
// {0,1,len,len-1,len+1,max,0xfff8} - and the byte replaced by {0, 0xff, b+1, b-1, b^0x80}. Lists,
// TLVs and extensions of application protocols sit hundreds of bytes into a message; their
// length arithmetic is what these reach.
type Deep struct {
	H, Cap int
}

const deepWin = 7
const deepSub = 5

var deepVals = [deepSub]int{0, 0xff, 256, 257, 258}

func (d Deep) span(l int) (from, n int) {
	l = min(l, d.Cap)
	if l <= d.H {
		return d.H, 0
	}
	return d.H, l - d.H
}

func (d Deep) Count(l int) int64 {
	_, n := d.span(l)
	return int64(n) * (deepWin*2 + deepSub)
}

func (d Deep) Variant(s []byte, j int64) []byte {
	from, _ := d.span(len(s))
	per := int64(deepWin*2 + deepSub)
	pos, k := from+int(j/per), int(j%per)
	out := exact(s)
	if k < deepWin*2 {
		// the window that ENDS at pos (the quick neighbourhood covered the ones ending before H)
		v := uint16(0xfff8)
		if k/2 < winVals {
			v = uint16(winVal(k/2, len(s), 16))
		}
		if k%2 == 1 {
			binary.LittleEndian.PutUint16(out[pos-1:], v)
		} else {
			binary.BigEndian.PutUint16(out[pos-1:], v)
		}
		return out
	}
	switch v := deepVals[k-deepWin*2]; v {
	case 256:
		out[pos]++
	case 257:
		out[pos]--
	case 258:
		out[pos] ^= 0x80
	default:
		out[pos] = byte(v)
	}
	return out
}
