// Package multi runs a check that consists of several binaries (packages that
// cannot be linked together: reassembly and tcpassembly both register the same
// command line flags) and merges their evidence into one file.
package multi

import (
	"encoding/json"
	"fmt"
	"os"
	"os/exec"
	"path/filepath"
	"strings"
	"time"

	"verif/engine/report"
)

// Run executes the part binaries (names relative to $VERIF_WORK/bin), each with
// its own evidence directory, merges coverage and writes evidence/<prop>.json.
func Run(prop, level string, parts []string) {
	start := time.Now()
	work := os.Getenv("VERIF_WORK")
	if work == "" {
		work = filepath.Join(report.Root(), ".work")
	}
	outDir := filepath.Join(report.Root(), "evidence")
	if d := os.Getenv("VERIF_EVIDENCE_DIR"); d != "" {
		outDir = d
	}
	worst := 0
	merged := map[string]any{}
	cov := map[string]any{}
	var assumptions []any
	violations := 0
	exhaustive := true
	var samples []any
	var rules []string
	knownSeen := []any{}
	for _, p := range parts {
		evd := filepath.Join(work, "parts", prop+"-"+p)
		os.RemoveAll(evd)
		os.MkdirAll(evd, 0o755)
		cmd := exec.Command(filepath.Join(work, "bin", p), os.Args[1:]...)
		cmd.Env = append(os.Environ(), "VERIF_EVIDENCE_DIR="+evd, "VERIF_PART="+p)
		cmd.Stdout, cmd.Stderr = os.Stdout, os.Stderr
		err := cmd.Run()
		code := 0
		if err != nil {
			code = 2
			if ee, ok := err.(*exec.ExitError); ok {
				code = ee.ExitCode()
			}
		}
		if code > worst {
			worst = code
		}
		if os.Getenv("VERIF_REPLAY") != "" {
			continue
		}
		b, err := os.ReadFile(filepath.Join(evd, prop+".json"))
		if err != nil {
			fmt.Fprintf(os.Stderr, "part %s wrote no evidence\n", p)
			if worst < 2 {
				worst = 2
			}
			continue
		}
		var ev map[string]any
		json.Unmarshal(b, &ev)
		merged = ev
		c, _ := ev["coverage"].(map[string]any)
		part := map[string]any{}
		for k, v := range c {
			switch k {
			case "states", "transitions", "traces_validated_against_impl", "evaluations", "distinct_nontrivial":
				f, _ := v.(float64)
				old, _ := cov[k].(int64)
				cov[k] = old + int64(f)
				part[k] = v
			case "samples":
				if l, ok := v.([]any); ok {
					samples = append(samples, l...)
				}
			case "rule":
				if t, ok := v.(string); ok {
					rules = append(rules, "["+p+"] "+t)
				}
				part[k] = v
			case "known_findings_seen":
				if l, ok := v.([]any); ok {
					knownSeen = append(knownSeen, l...)
				}
				part[k] = v
			case "exhaustive":
				if b, ok := v.(bool); ok && !b {
					exhaustive = false
				}
				part[k] = v
			default:
				part[k] = v
			}
		}
		cov["part:"+p] = part
		if a, ok := ev["assumptions"].([]any); ok {
			assumptions = append(assumptions, a...)
		}
		if v, ok := ev["violations"].(float64); ok {
			violations += int(v)
		}
	}
	if os.Getenv("VERIF_REPLAY") != "" {
		os.Exit(worst)
	}
	cov["samples"] = samples
	cov["rule"] = strings.Join(rules, " ")
	cov["known_findings_seen"] = knownSeen
	cov["exhaustive"] = exhaustive
	merged["coverage"] = cov
	merged["assumptions"] = assumptions
	merged["violations"] = violations
	merged["wall_s"] = time.Since(start).Seconds()
	merged["property_id"] = prop
	merged["level"] = level
	b, _ := json.MarshalIndent(merged, "", " ")
	os.MkdirAll(outDir, 0o755)
	if err := os.WriteFile(filepath.Join(outDir, prop+".json"), append(b, '\n'), 0o644); err != nil {
		fmt.Fprintln(os.Stderr, err)
		os.Exit(2)
	}
	fmt.Printf("RESULT property=%s parts=%v violations=%d exhaustive=%v wall=%.1fs\n", prop, parts, violations, exhaustive, time.Since(start).Seconds())
	os.Exit(worst)
}
