// Package statex enumerates operation sequences on real objects: stateless
// (every sequence of a given length over a finite alphabet, each run on a
// fresh instance) and explicit-state BFS where the state reached by a path is
// identified by a canonical key supplied by the caller and a state is expanded
// only once.
package statex

import (
	"sync"
	"sync/atomic"
	"time"
)

// OnHang, when set, is called (once) if a worker spends more than HangAfter
// on a single sequence; it receives a copy of that sequence. The in-process
// workers cannot be killed, so the callback is expected to report the
// violation and end the process.
var OnHang func(seq []int)
var HangAfter = 60 * time.Second


// Sequences calls f(worker, seq) for every sequence over [0,k) of length n,
// sharded over workers by the first min(n,2) letters. f must not retain seq.
// stop is polled between shards. Returns the number of sequences run and
// whether the enumeration was complete.
func Sequences(k, n, workers int, stop func() bool, f func(worker int, seq []int)) (int64, bool) {
	if n == 0 {
		f(0, nil)
		return 1, true
	}
	pre := 2
	if n < 2 {
		pre = n
	}
	nshard := 1
	for i := 0; i < pre; i++ {
		nshard *= k
	}
	var next int64 = -1
	var total int64
	complete := int32(1)
	ticks := make([]int64, workers)
	cur := make([][]int, workers)
	done := make(chan struct{})
	defer close(done)
	if OnHang != nil {
		go func() {
			last := make([]int64, workers)
			since := make([]time.Time, workers)
			for i := range since {
				since[i] = time.Now()
			}
			for {
				select {
				case <-done:
					return
				case <-time.After(2 * time.Second):
				}
				for w := range ticks {
					t := atomic.LoadInt64(&ticks[w])
					if t != last[w] || t < 0 {
						last[w], since[w] = t, time.Now()
					} else if time.Since(since[w]) > HangAfter && cur[w] != nil {
						OnHang(append([]int(nil), cur[w]...))
						return
					}
				}
			}
		}()
	}
	var wg sync.WaitGroup
	for w := 0; w < workers; w++ {
		wg.Add(1)
		go func(w int) {
			defer wg.Done()
			defer atomic.StoreInt64(&ticks[w], -1)
			seq := make([]int, n)
			cur[w] = seq
			for {
				s := int(atomic.AddInt64(&next, 1))
				if s >= nshard {
					return
				}
				if stop != nil && stop() {
					atomic.StoreInt32(&complete, 0)
					return
				}
				x := s
				for i := pre - 1; i >= 0; i-- {
					seq[i] = x % k
					x /= k
				}
				for i := pre; i < n; i++ {
					seq[i] = 0
				}
				var cnt int64
				for {
					atomic.AddInt64(&ticks[w], 1)
					f(w, seq)
					cnt++
					// increment the suffix seq[pre:]
					i := n - 1
					for ; i >= pre; i-- {
						seq[i]++
						if seq[i] < k {
							break
						}
						seq[i] = 0
					}
					if i < pre {
						break
					}
				}
				atomic.AddInt64(&total, cnt)
			}
		}(w)
	}
	wg.Wait()
	return total, complete == 1
}

// BFS explores paths over [0,k) up to maxDepth. eval runs the path on a fresh
// object and returns the canonical key of the state reached (ok=false prunes
// the path, e.g. after a violation). A key is expanded only the first time it
// is reached (BFS order = shortest path first).
func BFS(k, maxDepth, workers int, stop func() bool, eval func(path []int) (key string, ok bool)) (states, transitions int64, depthDone int, complete bool) {
	seen := map[string]struct{}{}
	k0, ok := eval(nil)
	if !ok {
		return 0, 0, 0, true
	}
	seen[k0] = struct{}{}
	frontier := [][]int{{}}
	states = 1
	complete = true
	for d := 0; d < maxDepth && len(frontier) > 0; d++ {
		type res struct {
			path []int
			key  string
			ok   bool
		}
		out := make([]res, len(frontier)*k)
		var idx int64 = -1
		var wg sync.WaitGroup
		stopped := int32(0)
		for w := 0; w < workers; w++ {
			wg.Add(1)
			go func() {
				defer wg.Done()
				for {
					i := int(atomic.AddInt64(&idx, 1))
					if i >= len(out) {
						return
					}
					if stop != nil && i%1024 == 0 && stop() {
						atomic.StoreInt32(&stopped, 1)
						return
					}
					p := append(append([]int(nil), frontier[i/k]...), i%k)
					key, ok := eval(p)
					out[i] = res{p, key, ok}
				}
			}()
		}
		wg.Wait()
		if stopped == 1 {
			return states, transitions, d, false
		}
		var next [][]int
		for _, r := range out {
			transitions++
			if !r.ok {
				continue
			}
			if _, dup := seen[r.key]; dup {
				continue
			}
			seen[r.key] = struct{}{}
			states++
			next = append(next, r.path)
		}
		frontier = next
		depthDone = d + 1
	}
	return states, transitions, depthDone, complete
}
