// Package report collects violations, matches them against the committed
// known-findings file, writes replay artefacts and the evidence file, and
// produces the VIOLATION / KNOWN-FINDING lines and the exit status.
package report

import (
	"bufio"
	"crypto/sha1"
	"encoding/hex"
	"encoding/json"
	"fmt"
	"os"
	"path/filepath"
	"regexp"
	"runtime"
	"sort"
	"strconv"
	"strings"
	"sync"
	"time"
)

func Root() string {
	if r := os.Getenv("VERIF_ROOT"); r != "" {
		return r
	}
	return "/verif"
}

func Repo() string {
	if r := os.Getenv("VERIF_REPO"); r != "" {
		return r
	}
	return "/repo"
}

type Known struct {
	Property string `json:"property"`
	Status   string `json:"status"` // known | fixed
	Key      string `json:"key"`
	What     string `json:"what"`
	Example  any    `json:"example,omitempty"`
	Commit   string `json:"commit,omitempty"`
}

// Viol is one violation class (deduplicated by Key) with its first example.
type Viol struct {
	Key    string `json:"key"`
	What   string `json:"what"`
	Replay any    `json:"replay"`
	Count  int64  `json:"count"`
	Order  int64  `json:"order"` // smaller = simpler case; the smallest example is kept
}

type Run struct {
	Prop, Tier, Level string
	Seed              int64
	Start             time.Time
	Deadline          time.Time
	known             []Known
	mu                sync.Mutex
	viols             map[string]*Viol
	Coverage          map[string]any
	Assumptions       []string
	Exhaustive        bool
	notes             []string
}

func New(prop, level string) *Run {
	r := &Run{Prop: prop, Level: level, Start: time.Now(), viols: map[string]*Viol{}, Coverage: map[string]any{}, Exhaustive: true}
	r.Tier = os.Getenv("VERIF_TIER")
	if r.Tier != "thorough" {
		r.Tier = "quick"
	}
	if s, err := strconv.ParseInt(os.Getenv("VERIF_SEED"), 10, 64); err == nil {
		r.Seed = s
	}
	budget := 10 * time.Minute
	if r.Tier == "thorough" {
		budget = 45 * time.Minute
	}
	if s := os.Getenv("VERIF_BUDGET_S"); s != "" {
		if v, err := strconv.Atoi(s); err == nil {
			budget = time.Duration(v) * time.Second
		}
	}
	r.Deadline = r.Start.Add(budget)
	r.known = LoadKnown(prop)
	return r
}

func (r *Run) Thorough() bool { return r.Tier == "thorough" }

// Expired reports whether the internal deadline has passed; callers stop
// exploring, and the run is recorded as not exhaustive (never as a failure).
func (r *Run) Expired() bool {
	if time.Now().After(r.Deadline) {
		r.mu.Lock()
		r.Exhaustive = false
		r.mu.Unlock()
		return true
	}
	return false
}

func (r *Run) Note(format string, a ...any) {
	s := fmt.Sprintf(format, a...)
	r.mu.Lock()
	r.notes = append(r.notes, s)
	r.mu.Unlock()
	fmt.Println("# " + s)
}

func LoadKnown(prop string) []Known {
	f, err := os.Open(filepath.Join(Root(), "known_findings.jsonl"))
	if err != nil {
		return nil
	}
	defer f.Close()
	var out []Known
	sc := bufio.NewScanner(f)
	sc.Buffer(make([]byte, 1<<20), 1<<24)
	for sc.Scan() {
		line := strings.TrimSpace(sc.Text())
		if line == "" || strings.HasPrefix(line, "#") {
			continue
		}
		var k Known
		if json.Unmarshal([]byte(line), &k) == nil && k.Property == prop {
			out = append(out, k)
		}
	}
	return out
}

// Violation records a violation class. order ranks examples (smallest kept).
func (r *Run) Violation(key, what string, order int64, replay any) {
	r.mu.Lock()
	defer r.mu.Unlock()
	r.addLocked(&Viol{Key: key, What: what, Replay: replay, Count: 1, Order: order})
}

func (r *Run) Merge(v *Viol) {
	r.mu.Lock()
	defer r.mu.Unlock()
	r.addLocked(v)
}

func (r *Run) addLocked(v *Viol) {
	if old, ok := r.viols[v.Key]; ok {
		old.Count += v.Count
		if v.Order < old.Order {
			old.Order, old.Replay, old.What = v.Order, v.Replay, v.What
		}
		return
	}
	c := *v
	r.viols[v.Key] = &c
}

func (r *Run) NumViolationClasses() int {
	r.mu.Lock()
	defer r.mu.Unlock()
	return len(r.viols)
}

func matchKnown(known []Known, key string) *Known {
	for i := range known {
		k := &known[i]
		if k.Status != "known" {
			continue
		}
		if k.Key == key || (strings.HasSuffix(k.Key, "*") && strings.HasPrefix(key, strings.TrimSuffix(k.Key, "*"))) {
			return k
		}
	}
	return nil
}

// Finish writes evidence and replay files, prints the result lines and exits.
func (r *Run) Finish() {
	r.mu.Lock()
	keys := make([]string, 0, len(r.viols))
	for k := range r.viols {
		keys = append(keys, k)
	}
	sort.Strings(keys)
	nviol, nknown := 0, 0
	knownSeen := []string{}
	var lines []string
	dir := filepath.Join(Root(), "findings", r.Prop)
	if d := os.Getenv("VERIF_FINDINGS_DIR"); d != "" {
		dir = filepath.Join(d, r.Prop)
	}
	for _, k := range keys {
		v := r.viols[k]
		if kn := matchKnown(r.known, k); kn != nil {
			nknown++
			knownSeen = append(knownSeen, k)
			fmt.Printf("KNOWN-FINDING: property=%s %s -- %s (seen %d times)\n", r.Prop, k, kn.What, v.Count)
			continue
		}
		nviol++
		os.MkdirAll(dir, 0o755)
		h := sha1.Sum([]byte(k))
		p := filepath.Join(dir, hex.EncodeToString(h[:6])+".json")
		b, _ := json.MarshalIndent(map[string]any{"property": r.Prop, "key": k, "what": v.What, "count": v.Count, "replay": v.Replay}, "", " ")
		os.WriteFile(p, b, 0o644)
		if nviol <= 40 {
			lines = append(lines, fmt.Sprintf("VIOLATION property=%s replay=%s key=%q what=%q count=%d", r.Prop, p, k, trunc(v.What, 300), v.Count))
		}
	}
	r.mu.Unlock()
	cov := r.Coverage
	cov["exhaustive"] = r.Exhaustive
	cov["known_findings_seen"] = knownSeen
	if len(r.notes) > 0 {
		cov["notes"] = r.notes
	}
	ev := map[string]any{
		"property_id": r.Prop, "tier": r.Tier, "seed": r.Seed, "level": r.Level,
		"coverage": cov, "assumptions": r.Assumptions,
		"wall_s": time.Since(r.Start).Seconds(), "violations": nviol,
	}
	b, _ := json.MarshalIndent(ev, "", " ")
	evdir := filepath.Join(Root(), "evidence")
	if d := os.Getenv("VERIF_EVIDENCE_DIR"); d != "" {
		evdir = d
	}
	os.MkdirAll(evdir, 0o755)
	if err := os.WriteFile(filepath.Join(evdir, r.Prop+".json"), append(b, '\n'), 0o644); err != nil {
		fmt.Fprintln(os.Stderr, "cannot write evidence:", err)
		os.Exit(2)
	}
	for _, l := range lines {
		fmt.Println(l)
	}
	fmt.Printf("RESULT property=%s tier=%s violations=%d known_findings=%d exhaustive=%v wall=%.1fs\n", r.Prop, r.Tier, nviol, nknown, r.Exhaustive, time.Since(r.Start).Seconds())
	if nviol > 0 {
		os.Exit(1)
	}
	os.Exit(0)
}

func trunc(s string, n int) string {
	if len(s) > n {
		return s[:n] + "..."
	}
	return s
}

// ---- panic keys ------------------------------------------------------------

var frameRe = regexp.MustCompile(`^\t(\S+\.go):(\d+)`)
var numRe = regexp.MustCompile(`\b(0x[0-9a-fA-F]+|-?\d+)\b`)

var srcCache sync.Map

func sourceLine(file string, line int) string {
	var lines []string
	if v, ok := srcCache.Load(file); ok {
		lines = v.([]string)
	} else {
		b, err := os.ReadFile(file)
		if err != nil {
			return ""
		}
		lines = strings.Split(string(b), "\n")
		srcCache.Store(file, lines)
	}
	if line < 1 || line > len(lines) {
		return ""
	}
	return strings.Join(strings.Fields(lines[line-1]), " ")
}

// PanicClass normalises a panic value to a class string without numbers.
func PanicClass(v any) string {
	s := fmt.Sprint(v)
	if e, ok := v.(runtime.Error); ok {
		s = e.Error()
	}
	s = numRe.ReplaceAllString(s, "N")
	for _, cut := range []string{"index out of range", "slice bounds out of range"} {
		if i := strings.Index(s, cut); i >= 0 {
			s = s[:i+len(cut)]
		}
	}
	if i := strings.IndexByte(s, '\n'); i >= 0 {
		s = s[:i]
	}
	return trunc(s, 100)
}

// PanicKey builds the known-findings key of a panic from its value and stack
// (debug.Stack() taken inside the deferred recover): the innermost frame that
// lies in the gopacket repository, identified by function name and the source
// text of the line (not its number).
func PanicKey(v any, stack []byte) (key string, site string) {
	lines := strings.Split(string(stack), "\n")
	fn := ""
	for i := 0; i+1 < len(lines); i++ {
		l := lines[i]
		if strings.HasPrefix(l, "\t") || strings.HasPrefix(l, "goroutine ") || l == "" {
			continue
		}
		m := frameRe.FindStringSubmatch(lines[i+1])
		if m == nil {
			continue
		}
		if !strings.Contains(l, "github.com/gopacket/gopacket") || strings.Contains(l, "zzverif") {
			continue
		}
		// strip args
		name := l
		if j := strings.LastIndex(name, "("); j > 0 {
			name = name[:j]
		}
		name = strings.TrimPrefix(name, "github.com/gopacket/gopacket")
		name = strings.TrimPrefix(name, "/")
		if strings.Contains(name, "recoverDecodeError") || strings.HasSuffix(name, ".func1") && strings.Contains(name, "DecodeLayers") {
			continue
		}
		ln, _ := strconv.Atoi(m[2])
		fn = name
		site = fmt.Sprintf("%s:%d", m[1], ln)
		src := sourceLine(m[1], ln)
		return "panic|" + fn + "|" + src + "|" + PanicClass(v), site
	}
	return "panic|?|?|" + PanicClass(v), ""
}

// ReadJSON loads a replay file.
func ReadJSON(path string, v any) {
	b, err := os.ReadFile(path)
	if err != nil {
		fmt.Fprintln(os.Stderr, err)
		os.Exit(2)
	}
	if err := json.Unmarshal(b, v); err != nil {
		fmt.Fprintln(os.Stderr, err)
		os.Exit(2)
	}
}

// Local is a per-worker violation collector (no locking, lazy rendering): only
// the first (smallest-order) example of each key is rendered.
type Local struct {
	mu sync.Mutex
	m  map[string]*Viol
}

func NewLocal() *Local { return &Local{m: map[string]*Viol{}} }

func (l *Local) Add(key string, order int64, render func() (what string, replay any)) {
	l.mu.Lock()
	defer l.mu.Unlock()
	if v, ok := l.m[key]; ok {
		v.Count++
		if order < v.Order {
			v.Order = order
			v.What, v.Replay = render()
		}
		return
	}
	w, rp := render()
	l.m[key] = &Viol{Key: key, What: w, Replay: rp, Count: 1, Order: order}
}

func (r *Run) MergeLocal(l *Local) {
	l.mu.Lock()
	defer l.mu.Unlock()
	for _, v := range l.m {
		r.Merge(v)
	}
	l.m = map[string]*Viol{}
}

// IsKnown reports whether key is listed as a known (unrepaired) finding.
func (r *Run) IsKnown(key string) bool { return matchKnown(r.known, key) != nil }
