// Package enum is the bounded-exhaustive case enumerator: an indexable case
// space is sharded over single-threaded worker subprocesses; the worker stores
// the index of the case it is about to run into an mmap'ed progress file, so a
// worker that dies (fatal error, out of memory) or stops making progress is
// attributed to exactly one case.
package enum

import (
	"bufio"
	"bytes"
	"encoding/json"
	"fmt"
	"hash/fnv"
	"os"
	"os/exec"
	"path/filepath"
	"runtime"
	"runtime/debug"
	"sort"
	"strconv"
	"strings"
	"sync"
	"sync/atomic"
	"syscall"
	"time"
	"unsafe"

	"verif/engine/report"
)

// Phase is one indexable case space with its oracle.
type Phase struct {
	Name string
	Len  int64
	// Run executes case i and reports through w.
	Run func(i int64, w *Worker)
	// Describe renders case i for replay files and samples.
	Describe func(i int64) any
	// ChunkHint overrides the default chunk size (cases per worker process).
	ChunkHint int64
}

type Worker struct {
	Phase    string
	viols    map[string]*report.Viol
	outcomes map[uint64]struct{}
	counters map[string]int64
	samples  []any
	out      *bufio.Writer
	cur      int64
	desc     func(i int64) any
}

func (w *Worker) Index() int64 { return w.cur }

func (w *Worker) Violation(key, what string) {
	v, ok := w.viols[key]
	if ok {
		v.Count++
		return
	}
	var d any
	if w.desc != nil {
		d = w.desc(w.cur)
	}
	w.viols[key] = &report.Viol{Key: key, What: what, Order: w.cur, Count: 1,
		Replay: map[string]any{"phase": w.Phase, "index": w.cur, "case": d}}
}

// ViolationCase is Violation with an explicit replay description.
func (w *Worker) ViolationCase(key, what string, c any) {
	v, ok := w.viols[key]
	if ok {
		v.Count++
		return
	}
	w.viols[key] = &report.Viol{Key: key, What: what, Order: w.cur, Count: 1,
		Replay: map[string]any{"phase": w.Phase, "index": w.cur, "case": c}}
}

func (w *Worker) Outcome(h uint64) { w.outcomes[h] = struct{}{} }
func (w *Worker) OutcomeString(s string) {
	f := fnv.New64a()
	f.Write([]byte(s))
	w.outcomes[f.Sum64()] = struct{}{}
}
func (w *Worker) Count(name string, n int64) { w.counters[name] += n }
func (w *Worker) Sample(x any) {
	if len(w.samples) < 2 {
		w.samples = append(w.samples, x)
	}
}

// Guard runs f and converts a panic into a violation keyed by its site.
func (w *Worker) Guard(kind string, f func()) (panicked bool) {
	defer func() {
		if r := recover(); r != nil {
			panicked = true
			key, site := report.PanicKey(r, debug.Stack())
			w.Violation(key, fmt.Sprintf("%s: panic %v at %s", kind, r, site))
		}
	}()
	f()
	return false
}

type workerResult struct {
	Viols    []*report.Viol   `json:"viols"`
	Outcomes []uint64         `json:"outcomes"`
	Counters map[string]int64 `json:"counters"`
	Samples  []any            `json:"samples"`
	Done     int64            `json:"done"`
}

const envWorker = "VERIF_ENUM_WORKER"

var hangSeconds = int64(120)

// Main runs the phases. In a worker subprocess it never returns.
func Main(r *report.Run, phases []Phase) {
	if spec := os.Getenv(envWorker); spec != "" {
		workerMain(spec, phases)
		os.Exit(0)
	}
	if p := os.Getenv("VERIF_REPLAY"); p != "" {
		replayMain(p, phases)
		os.Exit(0)
	}
	ncpu := runtime.NumCPU()
	if s := os.Getenv("VERIF_PROCS"); s != "" {
		if v, err := strconv.Atoi(s); err == nil && v > 0 {
			ncpu = v
		}
	}
	workdir := filepath.Join(report.Root(), ".work", "enum", r.Prop+"-"+strconv.Itoa(os.Getpid()))
	os.MkdirAll(workdir, 0o755)
	defer os.RemoveAll(workdir)
	exe, _ := os.Executable()

	var total, crashes int64
	outcomes := map[uint64]struct{}{}
	counters := map[string]int64{}
	var samples []any
	perPhase := map[string]any{}
	var mu sync.Mutex

	for pi, ph := range phases {
		if ph.Len == 0 {
			continue
		}
		chunk := ph.ChunkHint
		if chunk == 0 {
			chunk = ph.Len / int64(ncpu*6)
			if chunk < 1 {
				chunk = 1
			}
			if chunk > 2_000_000 {
				chunk = 2_000_000
			}
			if r.Thorough() {
				// the deadline is looked at between chunks: smaller chunks in the long tier, where
				// a chunk of costly cases otherwise runs for half an hour past the deadline
				if c := ph.Len / int64(ncpu*48); c >= 1 && c < chunk {
					chunk = c
				}
				if chunk > 250_000 {
					chunk = 250_000
				}
			}
		}
		type job struct{ a, b int64 }
		jobs := make(chan job, 1024)
		go func() {
			for a := int64(0); a < ph.Len; a += chunk {
				b := a + chunk
				if b > ph.Len {
					b = ph.Len
				}
				jobs <- job{a, b}
			}
			close(jobs)
		}()
		var phaseDone int64
		var skipped int64
		t0 := time.Now()
		var wg sync.WaitGroup
		for k := 0; k < ncpu; k++ {
			wg.Add(1)
			go func(k int) {
				defer wg.Done()
				prog := filepath.Join(workdir, fmt.Sprintf("prog-%d-%d", pi, k))
				for j := range jobs {
					if r.Expired() {
						atomic.AddInt64(&skipped, j.b-j.a)
						continue
					}
					a := j.a
					for a < j.b {
						res, died, at, stderr := runWorker(exe, pi, a, j.b, prog)
						mu.Lock()
						if res != nil {
							for _, v := range res.Viols {
								r.Merge(v)
							}
							for _, o := range res.Outcomes {
								outcomes[o] = struct{}{}
							}
							for n, c := range res.Counters {
								counters[ph.Name+"."+n] += c
							}
							if len(samples) < 6 {
								for _, s := range res.Samples {
									if len(samples) < 6 {
										samples = append(samples, s)
									}
								}
							}
							phaseDone += res.Done
						}
						mu.Unlock()
						if !died {
							break
						}
						// worker died on case `at`
						atomic.AddInt64(&crashes, 1)
						kind, key, what := classifyDeath(stderr)
						var d any
						if ph.Describe != nil && at >= a && at < j.b {
							d = ph.Describe(at)
						}
						r.Violation(kind+"|"+key, what, at, map[string]any{"phase": ph.Name, "index": at, "case": d, "stderr_tail": tail(stderr, 3000)})
						mu.Lock()
						if at >= a {
							phaseDone += at - a + 1
						}
						mu.Unlock()
						if at < a {
							// died before starting any case (startup problem): do not loop forever
							fmt.Fprintf(os.Stderr, "worker died before its first case:\n%s\n", tail(stderr, 2000))
							os.Exit(2)
						}
						a = at + 1
					}
				}
			}(k)
		}
		wg.Wait()
		total += phaseDone
		perPhase[ph.Name] = map[string]any{"cases_in_space": ph.Len, "cases_run": phaseDone, "skipped_by_deadline": skipped, "wall_s": time.Since(t0).Seconds()}
		fmt.Printf("# phase %s: %d/%d cases in %.1fs\n", ph.Name, phaseDone, ph.Len, time.Since(t0).Seconds())
	}
	addInt(r.Coverage, "evaluations", total)
	addInt(r.Coverage, "distinct_nontrivial", int64(len(outcomes)))
	addInt(r.Coverage, "worker_crashes", crashes)
	r.Coverage["phases"] = perPhase
	cs := map[string]int64{}
	if old, ok := r.Coverage["counters"].(map[string]int64); ok {
		cs = old
	}
	for k, v := range counters {
		cs[k] += v
	}
	r.Coverage["counters"] = cs
	if old, ok := r.Coverage["samples"].([]any); ok {
		samples = append(old, samples...)
	}
	r.Coverage["samples"] = samples
}

func addInt(m map[string]any, k string, v int64) {
	if old, ok := m[k].(int64); ok {
		v += old
	}
	m[k] = v
}

func tail(s string, n int) string {
	if len(s) > n {
		return s[len(s)-n:]
	}
	return s
}

func classifyDeath(stderr string) (kind, key, what string) {
	kind = "crash"
	first := ""
	for _, l := range strings.Split(stderr, "\n") {
		if strings.HasPrefix(l, "VERIF-HANG") {
			kind = "hang"
			first = l
			break
		}
		if strings.HasPrefix(l, "fatal error:") || strings.HasPrefix(l, "panic:") || strings.HasPrefix(l, "runtime:") || strings.HasPrefix(l, "signal:") {
			first = l
			break
		}
	}
	if first == "" {
		first = "worker exited abnormally"
	}
	// find the first goroutine block that contains gopacket frames
	blocks := strings.Split(stderr, "\n\ngoroutine ")
	site := ""
	k := "?|?"
	for _, b := range blocks {
		if !strings.Contains(b, "github.com/gopacket/gopacket") {
			continue
		}
		if kind == "hang" && !strings.Contains(b, "[running]") && !strings.Contains(b, "[runnable]") && !strings.Contains(b, "[sleep") && !strings.Contains(b, "[chan") && !strings.Contains(b, "[select") && !strings.Contains(b, "[sync") && !strings.Contains(b, "[semacquire") {
			continue
		}
		pk, s := report.PanicKey(first, []byte("goroutine "+b))
		k, site = strings.TrimPrefix(pk, "panic|"), s
		break
	}
	return kind, k, fmt.Sprintf("%s (worker died) at %s", first, site)
}

func runWorker(exe string, phase int, a, b int64, prog string) (res *workerResult, died bool, at int64, stderr string) {
	os.WriteFile(prog, make([]byte, 8), 0o644)
	resf := prog + ".res"
	os.Remove(resf)
	cmd := exec.Command(exe)
	cmd.Env = append(os.Environ(), fmt.Sprintf("%s=%d:%d:%d:%s:%s", envWorker, phase, a, b, prog, resf), "GOMAXPROCS=2")
	var eb bytes.Buffer
	cmd.Stderr = &eb
	cmd.Stdout = os.Stdout
	err := cmd.Run()
	stderr = eb.String()
	if data, rerr := os.ReadFile(resf); rerr == nil {
		var wr workerResult
		if json.Unmarshal(data, &wr) == nil {
			res = &wr
		}
	}
	if err == nil && res != nil {
		return res, false, 0, stderr
	}
	pb, _ := os.ReadFile(prog)
	at = a - 1
	if len(pb) >= 8 {
		v := *(*int64)(unsafe.Pointer(&pb[0]))
		if v > 0 {
			at = v - 1 // stored as index+1
		}
	}
	return res, true, at, stderr
}

// cpuSeconds is the CPU time (user + system) this process has consumed.
func cpuSeconds() float64 {
	var ru syscall.Rusage
	if syscall.Getrusage(syscall.RUSAGE_SELF, &ru) != nil {
		return 0
	}
	return float64(ru.Utime.Sec+ru.Stime.Sec) + float64(ru.Utime.Usec+ru.Stime.Usec)/1e6
}

func newWorker(ph *Phase) *Worker {
	return &Worker{Phase: ph.Name, viols: map[string]*report.Viol{}, outcomes: map[uint64]struct{}{}, counters: map[string]int64{}, desc: ph.Describe}
}

func (w *Worker) result(done int64) *workerResult {
	wr := &workerResult{Counters: w.counters, Samples: w.samples, Done: done}
	keys := make([]string, 0, len(w.viols))
	for k := range w.viols {
		keys = append(keys, k)
	}
	sort.Strings(keys)
	for _, k := range keys {
		wr.Viols = append(wr.Viols, w.viols[k])
	}
	for o := range w.outcomes {
		wr.Outcomes = append(wr.Outcomes, o)
	}
	return wr
}

func workerMain(spec string, phases []Phase) {
	parts := strings.SplitN(spec, ":", 5)
	pi, _ := strconv.Atoi(parts[0])
	a, _ := strconv.ParseInt(parts[1], 10, 64)
	b, _ := strconv.ParseInt(parts[2], 10, 64)
	prog, resf := parts[3], parts[4]
	ph := &phases[pi]
	if b > ph.Len {
		fmt.Fprintf(os.Stderr, "worker: space of phase %s has %d cases in the worker but the parent asked for %d (non-deterministic space construction)\n", ph.Name, ph.Len, b)
		os.Exit(4)
	}
	// address-space limit: a runaway allocation becomes a fatal error of this worker only
	lim := uint64(6 << 30)
	if s := os.Getenv("VERIF_AS_LIMIT_MB"); s != "" {
		if v, err := strconv.Atoi(s); err == nil {
			lim = uint64(v) << 20
		}
	}
	if lim > 0 {
		syscall.Setrlimit(syscall.RLIMIT_AS, &syscall.Rlimit{Cur: lim, Max: lim})
	}
	f, err := os.OpenFile(prog, os.O_RDWR, 0o644)
	if err != nil {
		fmt.Fprintln(os.Stderr, "worker: progress file:", err)
		os.Exit(4)
	}
	mem, err := syscall.Mmap(int(f.Fd()), 0, 8, syscall.PROT_READ|syscall.PROT_WRITE, syscall.MAP_SHARED)
	if err != nil {
		fmt.Fprintln(os.Stderr, "worker: mmap:", err)
		os.Exit(4)
	}
	progress := (*int64)(unsafe.Pointer(&mem[0]))
	// watchdog: no progress for hangSeconds => hang
	// The budget is PROCESS CPU TIME spent on one case, not wall-clock time: a runaway loop
	// burns CPU whatever else the machine is doing, while a busy machine (other checks, other
	// users) must not turn a slow case into a "hang". A case that sits for 30 minutes of
	// wall-clock time without using CPU (blocked for good) is a hang as well.
	go func() {
		last, since, cpuSince := int64(-1), time.Now(), cpuSeconds()
		for {
			time.Sleep(2 * time.Second)
			cur := atomic.LoadInt64(progress)
			if cur != last {
				last, since, cpuSince = cur, time.Now(), cpuSeconds()
				continue
			}
			if cpuSeconds()-cpuSince > float64(hangSeconds) || time.Since(since) > 30*time.Minute {
				buf := make([]byte, 1<<20)
				n := runtime.Stack(buf, true)
				fmt.Fprintf(os.Stderr, "VERIF-HANG: case %d made no progress for %ds\n\n%s\n", cur-1, hangSeconds, buf[:n])
				os.Exit(3)
			}
		}
	}()
	w := newWorker(ph)
	for i := a; i < b; i++ {
		atomic.StoreInt64(progress, i+1)
		w.cur = i
		ph.Run(i, w)
	}
	if ph.Describe != nil && a < b {
		w.Sample(ph.Describe(a + (b-a)/2))
	}
	data, _ := json.Marshal(w.result(b - a))
	os.WriteFile(resf, data, 0o644)
}

func replayMain(path string, phases []Phase) {
	data, err := os.ReadFile(path)
	if err != nil {
		fmt.Fprintln(os.Stderr, err)
		os.Exit(2)
	}
	var f struct {
		Key    string `json:"key"`
		Replay struct {
			Phase string `json:"phase"`
			Index int64  `json:"index"`
		} `json:"replay"`
	}
	json.Unmarshal(data, &f)
	for pi := range phases {
		ph := &phases[pi]
		if ph.Name != f.Replay.Phase {
			continue
		}
		w := newWorker(ph)
		w.cur = f.Replay.Index
		if ph.Describe != nil {
			d, _ := json.Marshal(ph.Describe(w.cur))
			fmt.Printf("replaying phase=%s index=%d case=%s\n", ph.Name, w.cur, d)
		}
		ph.Run(w.cur, w)
		if len(w.viols) == 0 {
			fmt.Println("no violation reproduced")
			return
		}
		for k, v := range w.viols {
			fmt.Printf("REPRODUCED key=%q what=%q\n", k, v.What)
		}
		os.Exit(1)
	}
	fmt.Fprintln(os.Stderr, "phase not found:", f.Replay.Phase)
	os.Exit(2)
}
