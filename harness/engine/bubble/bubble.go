// Package bubble drives actors inside testing/synctest bubbles: the explorer
// (root goroutine) starts one API call of one idle actor at a time and then
// calls synctest.Wait, which returns exactly when every other goroutine of the
// bubble is durably blocked; the Go runtime, not a model, says who completed
// and who is blocked. A bubble whose root returns while goroutines are still
// blocked is a deadlock (reported by the runtime as a recoverable panic).
package bubble

import (
	"fmt"
	"runtime/debug"
	"strings"
	"testing"
	"testing/synctest"
)

type Actor struct {
	Name   string
	cmd    chan func()
	InCall bool
	Calls  int
	Panic  any
	Stack  []byte
}

// NewActor starts the actor goroutine; call inside the bubble.
func NewActor(name string) *Actor {
	a := &Actor{Name: name, cmd: make(chan func())}
	go func() {
		for f := range a.cmd {
			a.InCall = true
			func() {
				defer func() {
					if r := recover(); r != nil {
						a.Panic = r
						a.Stack = debug.Stack()
					}
				}()
				f()
			}()
			a.InCall = false
			a.Calls++
		}
	}()
	return a
}

// Start hands the actor its next call (the actor must be idle) and waits for quiescence.
func (a *Actor) Start(f func()) {
	a.cmd <- f
	synctest.Wait()
}

// Stop ends an idle actor's goroutine.
func (a *Actor) Stop() {
	if !a.InCall {
		close(a.cmd)
	}
}

// Run executes body in a fresh bubble. It returns deadlock=true when the
// runtime reports blocked goroutines at the end of the bubble, and any other
// panic of the root as rootPanic.
func Run(t *testing.T, body func()) (deadlock bool, rootPanic any) {
	defer func() {
		if r := recover(); r != nil {
			s := fmt.Sprint(r)
			if strings.Contains(s, "deadlock") {
				deadlock = true
			} else {
				rootPanic = r
			}
		}
	}()
	synctest.Test(t, func(t *testing.T) { body() })
	return
}
