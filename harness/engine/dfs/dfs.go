// Package dfs is the stateless depth-first enumerator of choice sequences used
// by the schedule explorers (sched, bubble) and the operation-sequence
// searches: an execution is re-run from scratch for every sequence; the
// explorer replays a prefix of recorded choices and takes choice 0 afterwards.
// Alternatives may carry a cost (a preemption, a deviation); sequences whose
// total cost exceeds the bound are not explored.
package dfs

import "fmt"

type point struct {
	v, n int
	cost []int // cost of each alternative (nil = all zero)
}

type Chooser struct {
	prefix []int
	trace  []point
	// Diverged is set when a replayed prefix asks for a choice that is not
	// available: the harness does not own some nondeterminism. Hard error.
	Diverged string
}

// Choose returns the choice at this point among n alternatives.
func (c *Chooser) Choose(n int) int { return c.ChooseCost(n, nil) }

// ChooseCost is Choose with a cost per alternative.
func (c *Chooser) ChooseCost(n int, cost []int) int {
	if n <= 0 {
		panic("dfs: Choose with no alternatives")
	}
	v := 0
	if i := len(c.trace); i < len(c.prefix) {
		v = c.prefix[i]
		if v >= n {
			c.Diverged = fmt.Sprintf("replay divergence at point %d: recorded choice %d but only %d alternatives", i, v, n)
			v = 0
		}
	}
	c.trace = append(c.trace, point{v, n, cost})
	return v
}

// Trace returns the choices made in this execution.
func (c *Chooser) Trace() []int {
	t := make([]int, len(c.trace))
	for i, p := range c.trace {
		t[i] = p.v
	}
	return t
}

func (c *Chooser) costSoFar(upto int) int {
	s := 0
	for _, p := range c.trace[:upto] {
		if p.cost != nil {
			s += p.cost[p.v]
		}
	}
	return s
}

// Stats of one exploration.
type Stats struct {
	Executions  int64
	Points      int64 // choice points taken (transitions)
	MaxDepth    int
	Capped      bool // stopped by the execution cap or the stop function
	Divergences int
}

// Explore enumerates all choice sequences of run with total cost <= bound
// (bound < 0: unbounded). run must be deterministic given the choices.
// stop is polled between executions; maxExec <= 0 means no cap.
func Explore(bound int, maxExec int64, stop func() bool, run func(c *Chooser)) Stats {
	return ExploreFrom(nil, bound, maxExec, stop, run)
}

// ExploreFrom explores only the subtree below the given fixed prefix.
func ExploreFrom(fixed []int, bound int, maxExec int64, stop func() bool, run func(c *Chooser)) Stats {
	var st Stats
	prefix := append([]int(nil), fixed...)
	for {
		c := &Chooser{prefix: prefix}
		run(c)
		st.Executions++
		st.Points += int64(len(c.trace))
		if len(c.trace) > st.MaxDepth {
			st.MaxDepth = len(c.trace)
		}
		if c.Diverged != "" {
			st.Divergences++
		}
		// next sequence: deepest point (not inside the fixed prefix) with an untried affordable alternative
		next := -1
		var nv int
		for i := len(c.trace) - 1; i >= len(fixed); i-- {
			p := c.trace[i]
			base := 0
			if bound >= 0 {
				base = c.costSoFar(i)
			}
			for v := p.v + 1; v < p.n; v++ {
				if bound >= 0 && p.cost != nil && base+p.cost[v] > bound {
					continue
				}
				next, nv = i, v
				break
			}
			if next >= 0 {
				break
			}
		}
		if next < 0 {
			return st
		}
		prefix = prefix[:0]
		for _, p := range c.trace[:next] {
			prefix = append(prefix, p.v)
		}
		prefix = append(prefix, nv)
		if (maxExec > 0 && st.Executions >= maxExec) || (stop != nil && stop()) {
			st.Capped = true
			return st
		}
	}
}
