// Package tcpmodel is the reference model shared by C09, C10, C11, C12: a
// sender's byte stream D[0..n) of distinct bytes behind an initial sequence
// number, the alphabet of segment/flush events, and the delivery oracle for one
// direction of one connection.
package tcpmodel

import "fmt"

type Kind int

const (
	SYN      Kind = iota // SYN, no payload
	SYNDATA              // SYN carrying D[0:1)
	DATA                 // D[A:B), optionally with FIN when B == n
	FIN                  // bare FIN at the end of the stream
	RST                  // bare RST at the end of the stream
	FLUSHOLD             // age flush with a cut-off after everything seen so far
	RSTAT                // bare RST at stream offset A (the sender gives up mid-stream: the stream ends there)
)

type Event struct {
	K    Kind
	A, B int
	Fin  bool
}

func (e Event) String() string {
	switch e.K {
	case SYN:
		return "SYN"
	case SYNDATA:
		return "SYN+D[0,1)"
	case DATA:
		s := fmt.Sprintf("D[%d,%d)", e.A, e.B)
		if e.Fin {
			s += "+FIN"
		}
		return s
	case FIN:
		return "FIN"
	case RST:
		return "RST"
	case RSTAT:
		return fmt.Sprintf("RST@%d", e.A)
	}
	return "FlushOlder"
}

// Alphabet for a stream of n bytes.
func Alphabet(n int, synData, rst bool) []Event {
	a := []Event{{K: SYN}}
	for x := 0; x < n; x++ {
		for y := x + 1; y <= n; y++ {
			a = append(a, Event{K: DATA, A: x, B: y})
			if y == n {
				a = append(a, Event{K: DATA, A: x, B: y, Fin: true})
			}
		}
	}
	a = append(a, Event{K: FIN}, Event{K: FLUSHOLD})
	if synData {
		a = append(a, Event{K: SYNDATA})
	}
	if rst {
		a = append(a, Event{K: RST})
	}
	return a
}

// AlphabetCuts is the alphabet for a long stream of n = cuts[len-1] bytes: the data segments
// are the ranges between any two cut points (cuts ascending, cuts[0] == 0), so segments can
// span several assembler pages without the alphabet growing with the stream length.
func AlphabetCuts(cuts []int, synData, rst bool) []Event {
	n := cuts[len(cuts)-1]
	a := []Event{{K: SYN}}
	for i := 0; i < len(cuts); i++ {
		for j := i + 1; j < len(cuts); j++ {
			a = append(a, Event{K: DATA, A: cuts[i], B: cuts[j]})
			if cuts[j] == n {
				a = append(a, Event{K: DATA, A: cuts[i], B: cuts[j], Fin: true})
			}
		}
	}
	a = append(a, Event{K: FIN}, Event{K: FLUSHOLD})
	if synData {
		a = append(a, Event{K: SYNDATA})
	}
	if rst {
		a = append(a, Event{K: RST})
	}
	return a
}

// Byte is the i-th byte of the sender's stream (letters for the short streams; for long
// streams a pattern in which a shift by any multiple of a page, or by a few bytes, shows).
func Byte(i int) byte {
	if i < 26 {
		return byte('a' + i)
	}
	return byte(0x80 | (i*7+i/251+i/1900*3)&0x7f)
}

// Segment is the TCP view of an event.
type Segment struct {
	Seq      uint32
	SYN, FIN bool
	RST      bool
	Payload  []byte
}

func (e Event) Segment(isn uint32, n int) Segment {
	switch e.K {
	case SYN:
		return Segment{Seq: isn, SYN: true}
	case SYNDATA:
		return Segment{Seq: isn, SYN: true, Payload: []byte{Byte(0)}}
	case DATA:
		p := make([]byte, e.B-e.A)
		for i := range p {
			p[i] = Byte(e.A + i)
		}
		return Segment{Seq: isn + 1 + uint32(e.A), FIN: e.Fin, Payload: p}
	case FIN:
		return Segment{Seq: isn + 1 + uint32(n), FIN: true}
	case RST:
		return Segment{Seq: isn + 1 + uint32(n), RST: true}
	case RSTAT:
		return Segment{Seq: isn + 1 + uint32(e.A), RST: true}
	}
	panic("not a segment")
}

// Delivery is one hand-over to the stream, package independent.
type Delivery struct {
	Skip       int // -1 unknown
	Bytes      []byte
	Start, End bool
	// Saved bytes presented again in front of the new data (reassembly only)
	Saved    []byte
	HasSaved bool
	// SavedMayDropOnSkip: kept bytes need not be presented when the hand-over starts with a skip
	SavedMayDropOnSkip bool
}

// Dir is the sender-side model of one direction.
type Dir struct {
	N       int
	Arrived []bool
	FinSeen bool // a segment with FIN or RST has arrived (they sit at the end of the stream)
	Ends    []int // stream offsets at which a FIN or RST has arrived (nil: only N is possible)
}

func NewDir(n int) *Dir { return &Dir{N: n, Arrived: make([]bool, n)} }

func (d *Dir) Arrive(e Event) {
	if e.K == FIN || e.K == RST || (e.K == DATA && e.Fin) {
		d.FinSeen = true
		d.Ends = append(d.Ends, d.N)
	}
	if e.K == RSTAT {
		d.FinSeen = true
		d.Ends = append(d.Ends, e.A)
	}
	switch e.K {
	case SYNDATA:
		d.Arrived[0] = true
	case DATA:
		for i := e.A; i < e.B; i++ {
			d.Arrived[i] = true
		}
	}
}

func (d *Dir) endsAt(pos int) bool {
	if len(d.Ends) == 0 {
		return pos == d.N
	}
	for _, e := range d.Ends {
		// a FIN sits at N. A mid-stream RST at offset e ends the stream wherever the receiver
		// stands when it is processed (an RST behind the delivered position still closes).
		if e == pos || (e < d.N && pos >= e) {
			return true
		}
	}
	return false
}

// ContigEnd is the end of the contiguous arrived prefix.
func (d *Dir) ContigEnd() int {
	i := 0
	for i < d.N && d.Arrived[i] {
		i++
	}
	return i
}

func (d *Dir) MaxArrived() int {
	m := 0
	for i, a := range d.Arrived {
		if a {
			m = i + 1
		}
	}
	return m
}

// Inst is the oracle state of one stream instance.
type Inst struct {
	Deliveries int
	Strict     bool   // the SYN was processed before anything was handed over
	Pos        int    // bytes accounted for: delivered or announced as skipped
	Ended      bool   // a delivery with End was made
	Completed  int    // ReassemblyComplete calls
	AfterDone  bool   // data callback after completion
	keep       []byte // bytes the stream asked to keep at the last hand-over (reassembly)
	hasKeep    bool
}

// StepCtx describes the history step during which a delivery happens.
type StepCtx struct {
	FlushStep bool // the step is FlushOlder / FlushAll
	Limited   bool // a page limit is configured
}

// Deliver checks one hand-over against the model; it returns a violation
// (clause, detail) or "".
func (in *Inst) Deliver(dir *Dir, d Delivery, ctx StepCtx) (string, string) {
	first := in.Deliveries == 0
	in.Deliveries++
	if in.Completed > 0 {
		in.AfterDone = true
	}
	if first {
		in.Strict = d.Start
	}
	if !in.Strict {
		return "", ""
	}
	if d.Skip < 0 {
		return "skip-unknown-after-start", fmt.Sprintf("skip=%d on a stream whose start was seen", d.Skip)
	}
	if d.Skip > 0 && !ctx.FlushStep && !ctx.Limited {
		return "skip-without-flush-or-limit", fmt.Sprintf("skip=%d announced although neither a flush nor a page limit forced data out", d.Skip)
	}
	from := in.Pos + d.Skip
	if from+len(d.Bytes) > dir.N {
		return "bytes-beyond-stream", fmt.Sprintf("pos=%d skip=%d len=%d exceeds the sender's %d bytes (invented or duplicated data)", in.Pos, d.Skip, len(d.Bytes), dir.N)
	}
	for i, b := range d.Bytes {
		if b != Byte(from+i) {
			return "bytes-mismatch", fmt.Sprintf("pos=%d skip=%d delivered %q but the sender's bytes there are %q (duplicated, reordered or altered; first difference at stream offset %d)", in.Pos, d.Skip, clip(d.Bytes), clip(want(from, len(d.Bytes))), from+i)
		}
	}
	for i := in.Pos; i < from; i++ {
		if dir.Arrived[i] {
			return "skipped-arrived-byte", fmt.Sprintf("pos=%d skip=%d passes over byte %d which had arrived", in.Pos, d.Skip, i)
		}
	}
	if d.HasSaved {
		if in.hasKeep {
			if string(d.Saved) != string(in.keep) && !(d.SavedMayDropOnSkip && d.Skip > 0 && len(d.Saved) == 0) {
				return "kept-bytes-wrong", fmt.Sprintf("stream asked to keep %q, was presented %q", in.keep, d.Saved)
			}
		} else if len(d.Saved) != 0 {
			return "kept-bytes-wrong", fmt.Sprintf("stream kept nothing, was presented %q", d.Saved)
		}
	}
	in.Pos = from + len(d.Bytes)
	if d.End {
		in.Ended = true
		// the end of a direction is the sender's FIN or RST, which sits behind the last byte
		if !dir.FinSeen {
			return "end-without-fin", fmt.Sprintf("hand-over %d reports the end of the stream at offset %d although no FIN or RST has arrived", in.Deliveries, in.Pos)
		}
		if !dir.endsAt(in.Pos) {
			return "end-before-the-fin-position", fmt.Sprintf("hand-over %d reports the end of the stream at offset %d, the sender's FIN sits at %d", in.Deliveries, in.Pos, dir.N)
		}
	}
	return "", ""
}

// Keep records what the stream asked to keep for the next hand-over.
func (in *Inst) Keep(b []byte) { in.keep, in.hasKeep = append([]byte(nil), b...), true }

func clip(b []byte) []byte {
	if len(b) > 24 {
		return b[:24]
	}
	return b
}

func want(from, n int) []byte {
	w := make([]byte, n)
	for i := range w {
		w[i] = Byte(from + i)
	}
	return w
}

// NotHeldBack: after an arrival, a strict live instance has been given every
// byte of the contiguous arrived prefix.
func (in *Inst) NotHeldBack(dir *Dir) (string, string) {
	if !in.Strict || in.Ended || in.Completed > 0 {
		return "", ""
	}
	if c := dir.ContigEnd(); in.Pos < c {
		return "held-back", fmt.Sprintf("bytes [%d,%d) have arrived in order but were not handed over", in.Pos, c)
	}
	return "", ""
}

// AllAccounted: after the final flush, everything that arrived was delivered or skipped.
func (in *Inst) AllAccounted(dir *Dir) (string, string) {
	if !in.Strict || in.Ended {
		return "", ""
	}
	if m := dir.MaxArrived(); in.Pos < m {
		return "lost-at-flushall", fmt.Sprintf("bytes up to %d arrived but only %d were delivered or announced after FlushAll", m, in.Pos)
	}
	return "", ""
}

// ISNs puts every quarter boundary used by the wrap-safe comparison, and the
// wrap itself, inside the stream.
func ISNs(n int) []uint32 {
	return []uint32{0, 1000, 1<<30 - 3, 1<<31 - 3, 3<<30 - 3, uint32(uint64(1)<<32 - uint64(n) - 3), 1<<32 - 3, 1<<32 - 1}
}

func ISNClass(isn uint32, n int) string {
	if uint64(isn) > 1<<32-uint64(n)-8 {
		return "wrap"
	}
	return "nowrap"
}
