// Package cons builds the families of layer stacks constructed from in-range field values
// (shared by C06 and C07): every case can be made afresh any number of times, because
// SerializeTo with FixLengths rewrites fields of the layers it is given.
package cons

import (
	"fmt"
	"net"

	"github.com/gopacket/gopacket"
	"github.com/gopacket/gopacket/layers"
)

// Case is one constructed stack: Make returns fresh layer values and the payload.
type Case struct {
	Desc  string
	First gopacket.LayerType
	// types the decoder may add although the caller did not list them explicitly
	// (a hop-by-hop header given through IPv6.HopByHop)
	Implicit map[gopacket.LayerType]bool
	Make     func() ([]gopacket.SerializableLayer, []byte)
	// Small marks the representatives used as bases for field mutations (payloads <= 8 bytes,
	// lists of at most one element, every GRE flag combination)
	Small bool
	// MayRefuse: the values are at or beyond a documented limit; the serializer may return an
	// error instead of bytes (if it returns bytes they must still decode back)
	MayRefuse bool
}

var (
	s4 = net.IP{10, 0, 0, 1}
	d4 = net.IP{10, 0, 0, 2}
	s6 = net.ParseIP("2001:db8::1")
	d6 = net.ParseIP("2001:db8::2")
)

// PayloadN is the deterministic payload of n bytes.
func PayloadN(n int) []byte {
	p := make([]byte, n)
	for i := range p {
		p[i] = byte(i*7 + 3)
	}
	return p
}

// FamilyOf returns the family name of a case description.
func FamilyOf(desc string) string {
	for i := range desc {
		if desc[i] == ':' {
			return desc[:i]
		}
	}
	return desc
}

// ---- families ----------------------------------------------------------------------

func Sizes(thorough bool) []int {
	s := []int{0, 1, 2, 3, 7, 8, 1499, 1500}
	if thorough {
		s = append(s, 9000, 65507, 65527, 65528, 65529, 65535, 65536, 70000)
	} else {
		s = append(s, 65527, 65528, 65529, 65535, 65536)
	}
	return s
}

var hbhImplicit = map[gopacket.LayerType]bool{layers.LayerTypeIPv6HopByHop: true}

func Transport(thorough bool) []Case {
	var out []Case
	for _, n := range Sizes(thorough) {
		for v := 4; v <= 6; v += 2 {
			n, v := n, v
			ip := func(proto layers.IPProtocol) gopacket.SerializableLayer {
				if v == 4 {
					return &layers.IPv4{Version: 4, IHL: 5, TTL: 64, Id: 7, Protocol: proto, SrcIP: s4, DstIP: d4}
				}
				return &layers.IPv6{Version: 6, HopLimit: 64, NextHeader: proto, SrcIP: s6, DstIP: d6}
			}
			ft := layers.LayerTypeIPv6
			if v == 4 {
				ft = layers.LayerTypeIPv4
			}
			max4 := 65535 - 20
			if v == 6 || n+8 <= max4 {
				out = append(out, Case{Desc: fmt.Sprintf("udp-over-ipv%d: payload %d bytes", v, n), First: ft, Implicit: hbhImplicit, Small: n <= 8,
					Make: func() ([]gopacket.SerializableLayer, []byte) {
						return []gopacket.SerializableLayer{ip(layers.IPProtocolUDP), &layers.UDP{SrcPort: 40001, DstPort: 40002}}, PayloadN(n)
					}})
			}
			if v == 6 || n+20 <= max4 {
				out = append(out, Case{Desc: fmt.Sprintf("tcp-over-ipv%d: payload %d bytes", v, n), First: ft, Implicit: hbhImplicit, Small: n <= 8,
					Make: func() ([]gopacket.SerializableLayer, []byte) {
						return []gopacket.SerializableLayer{ip(layers.IPProtocolTCP), &layers.TCP{SrcPort: 40001, DstPort: 40002, Seq: 1, Ack: 2, ACK: true, Window: 100}}, PayloadN(n)
					}})
			}
			if n <= 1500 {
				if v == 4 {
					out = append(out, Case{Desc: fmt.Sprintf("icmpv4: payload %d bytes", n), First: ft, Small: n <= 8,
						Make: func() ([]gopacket.SerializableLayer, []byte) {
							return []gopacket.SerializableLayer{ip(layers.IPProtocolICMPv4), &layers.ICMPv4{TypeCode: layers.CreateICMPv4TypeCode(8, 0), Id: 3, Seq: 4}}, PayloadN(n)
						}})
				} else {
					out = append(out, Case{Desc: fmt.Sprintf("icmpv6: payload %d bytes", n), First: ft, Small: n <= 8,
						Make: func() ([]gopacket.SerializableLayer, []byte) {
							return []gopacket.SerializableLayer{ip(layers.IPProtocolICMPv6), &layers.ICMPv6{TypeCode: layers.CreateICMPv6TypeCode(1, 0)}}, PayloadN(n + 4)
						}})
				}
			}
		}
	}
	return out
}

// Lists returns all lists of 0..maxLen elements over k kinds.
func Lists(k, maxLen int) [][]int {
	out := [][]int{{}}
	var rec func(p []int)
	rec = func(p []int) {
		if len(p) == maxLen {
			return
		}
		for i := 0; i < k; i++ {
			q := append(append([]int(nil), p...), i)
			out = append(out, q)
			rec(q)
		}
	}
	rec(nil)
	return out
}

func IPv4Options() []Case {
	kinds := func() []layers.IPv4Option {
		return []layers.IPv4Option{
			{OptionType: 1, OptionLength: 1},
			{OptionType: 130, OptionLength: 2, OptionData: []byte{}},
			{OptionType: 130, OptionLength: 3, OptionData: []byte{9}},
			{OptionType: 130, OptionLength: 4, OptionData: []byte{9, 8}},
			{OptionType: 7, OptionLength: 7, OptionData: []byte{4, 1, 2, 3, 4}},
		}
	}
	var out []Case
	for _, l := range Lists(len(kinds()), 3) {
		l := l
		out = append(out, Case{Desc: fmt.Sprintf("ipv4-options: %v", l), First: layers.LayerTypeIPv4, Small: len(l) <= 1,
			Make: func() ([]gopacket.SerializableLayer, []byte) {
				ks := kinds()
				var os []layers.IPv4Option
				tot := 0
				for _, k := range l {
					os = append(os, ks[k])
					tot += int(ks[k].OptionLength)
				}
				for ; tot%4 != 0; tot++ {
					os = append(os, ks[0]) // the caller aligns the list with NOPs: padding is then not needed
				}
				ip := &layers.IPv4{Version: 4, TTL: 64, Id: 7, Protocol: layers.IPProtocolUDP, SrcIP: s4, DstIP: d4, Options: os}
				return []gopacket.SerializableLayer{ip, &layers.UDP{SrcPort: 40001, DstPort: 40002}}, PayloadN(5)
			}})
	}
	return out
}

// TCPOptions: every list of 0..3 options. withEOL adds an End-of-Option-List kind and leaves
// the list unaligned (values a decoder never produces: it stops at the first EOL).
func TCPOptions(withEOL bool) []Case {
	kinds := func() []layers.TCPOption {
		ks := []layers.TCPOption{
			{OptionType: layers.TCPOptionKindNop, OptionLength: 1},
			{OptionType: layers.TCPOptionKindMSS, OptionLength: 4, OptionData: []byte{5, 0xb4}},
			{OptionType: layers.TCPOptionKindWindowScale, OptionLength: 3, OptionData: []byte{7}},
			{OptionType: layers.TCPOptionKindSACKPermitted, OptionLength: 2},
			{OptionType: layers.TCPOptionKindTimestamps, OptionLength: 10, OptionData: []byte{1, 2, 3, 4, 5, 6, 7, 8}},
			{OptionType: 99, OptionLength: 5, OptionData: []byte{1, 2, 3}},
		}
		if withEOL {
			ks = append(ks, layers.TCPOption{OptionType: layers.TCPOptionKindEndList, OptionLength: 1})
		}
		return ks
	}
	name := "tcp-options"
	if withEOL {
		name = "tcp-options-with-eol"
	}
	var out []Case
	for _, l := range Lists(len(kinds()), 3) {
		l := l
		if withEOL {
			has := false
			for _, k := range l {
				has = has || k == 6
			}
			if !has {
				continue
			}
		}
		out = append(out, Case{Desc: fmt.Sprintf("%s: %v", name, l), First: layers.LayerTypeIPv4, Small: len(l) <= 1 || (withEOL && len(l) == 2),
			Make: func() ([]gopacket.SerializableLayer, []byte) {
				ks := kinds()
				var os []layers.TCPOption
				tot := 0
				for _, k := range l {
					os = append(os, ks[k])
					tot += int(ks[k].OptionLength)
				}
				for ; !withEOL && tot%4 != 0; tot++ {
					os = append(os, ks[0])
				}
				ip := &layers.IPv4{Version: 4, IHL: 5, TTL: 64, Id: 7, Protocol: layers.IPProtocolTCP, SrcIP: s4, DstIP: d4}
				return []gopacket.SerializableLayer{ip, &layers.TCP{SrcPort: 40001, DstPort: 40002, Seq: 1, SYN: true, Window: 100, Options: os}}, PayloadN(3)
			}})
	}
	return out
}

func IPv6TLVs() []Case {
	var out []Case
	// option data lengths 0..7: every residue mod 8 of the extension header length occurs
	for _, l := range Lists(8, 3) {
		l := l
		mk := func() (hbh []*layers.IPv6HopByHopOption, dst []*layers.IPv6DestinationOption) {
			for i, n := range l {
				d := make([]byte, n)
				for j := range d {
					d[j] = byte(0x40 + i*8 + j)
				}
				hbh = append(hbh, &layers.IPv6HopByHopOption{OptionType: 0x1e, OptionData: d})
				dst = append(dst, &layers.IPv6DestinationOption{OptionType: 0x1e, OptionData: append([]byte(nil), d...)})
			}
			return
		}
		out = append(out, Case{Desc: fmt.Sprintf("ipv6-hopbyhop-explicit-layer: option data lengths %v", l), First: layers.LayerTypeIPv6, Small: len(l) <= 1,
			Make: func() ([]gopacket.SerializableLayer, []byte) {
				h, _ := mk()
				ip := &layers.IPv6{Version: 6, HopLimit: 64, NextHeader: layers.IPProtocolIPv6HopByHop, SrcIP: s6, DstIP: d6}
				hb := &layers.IPv6HopByHop{Options: h}
				hb.NextHeader = layers.IPProtocolUDP
				return []gopacket.SerializableLayer{ip, hb, &layers.UDP{SrcPort: 40001, DstPort: 40002}}, PayloadN(4)
			}})
		out = append(out, Case{Desc: fmt.Sprintf("ipv6-destination: option data lengths %v", l), First: layers.LayerTypeIPv6, Small: len(l) <= 1,
			Make: func() ([]gopacket.SerializableLayer, []byte) {
				_, d := mk()
				ip2 := &layers.IPv6{Version: 6, HopLimit: 64, NextHeader: layers.IPProtocolIPv6Destination, SrcIP: s6, DstIP: d6}
				ds := &layers.IPv6Destination{Options: d}
				ds.NextHeader = layers.IPProtocolUDP
				return []gopacket.SerializableLayer{ip2, ds, &layers.UDP{SrcPort: 40001, DstPort: 40002}}, PayloadN(4)
			}})
		// the hop-by-hop header given only through IPv6.HopByHop (right after a stack with an explicit one went through the same buffer)
		out = append(out, Case{Desc: fmt.Sprintf("ipv6-hopbyhop-through-field: option data lengths %v", l), First: layers.LayerTypeIPv6, Small: len(l) <= 1, Implicit: hbhImplicit,
			Make: func() ([]gopacket.SerializableLayer, []byte) {
				h2, _ := mk()
				hb2 := &layers.IPv6HopByHop{Options: h2}
				hb2.NextHeader = layers.IPProtocolUDP
				ip3 := &layers.IPv6{Version: 6, HopLimit: 64, NextHeader: layers.IPProtocolUDP, SrcIP: s6, DstIP: d6, HopByHop: hb2}
				return []gopacket.SerializableLayer{ip3, &layers.UDP{SrcPort: 40001, DstPort: 40002}}, PayloadN(4)
			}})
	}
	return out
}

func NDP() []Case {
	kinds := func() []layers.ICMPv6Option {
		return []layers.ICMPv6Option{
			{Type: layers.ICMPv6OptSourceAddress, Data: []byte{2, 0, 0, 0, 0, 1}},
			{Type: layers.ICMPv6OptMTU, Data: []byte{0, 0, 0, 0, 5, 0xdc}},
			{Type: layers.ICMPv6OptTargetAddress, Data: []byte{2, 0, 0, 0, 0, 2}},
			{Type: layers.ICMPv6OptPrefixInfo, Data: append([]byte{64, 0xc0, 0, 0, 0, 10, 0, 0, 0, 5, 0, 0, 0, 0}, net.ParseIP("2001:db8::")...)},
		}
	}
	names := []string{"router-advertisement", "router-solicitation", "neighbor-solicitation", "neighbor-advertisement", "redirect"}
	var out []Case
	for _, l := range Lists(len(kinds()), 3) {
		l := l
		for mi, name := range names {
			mi := mi
			out = append(out, Case{Desc: fmt.Sprintf("ndp-%s: options %v", name, l), First: layers.LayerTypeIPv6, Small: len(l) <= 1,
				Make: func() ([]gopacket.SerializableLayer, []byte) {
					ks := kinds()
					var os layers.ICMPv6Options
					for _, k := range l {
						os = append(os, ks[k])
					}
					ip := &layers.IPv6{Version: 6, HopLimit: 255, NextHeader: layers.IPProtocolICMPv6, SrcIP: s6, DstIP: d6}
					var typ uint8
					var m gopacket.SerializableLayer
					switch mi {
					case 0:
						typ, m = layers.ICMPv6TypeRouterAdvertisement, &layers.ICMPv6RouterAdvertisement{HopLimit: 64, Flags: 0x80, RouterLifetime: 1800, Options: os}
					case 1:
						typ, m = layers.ICMPv6TypeRouterSolicitation, &layers.ICMPv6RouterSolicitation{Options: os}
					case 2:
						typ, m = layers.ICMPv6TypeNeighborSolicitation, &layers.ICMPv6NeighborSolicitation{TargetAddress: d6, Options: os}
					case 3:
						typ, m = layers.ICMPv6TypeNeighborAdvertisement, &layers.ICMPv6NeighborAdvertisement{Flags: 0x60, TargetAddress: d6, Options: os}
					default:
						typ, m = layers.ICMPv6TypeRedirect, &layers.ICMPv6Redirect{TargetAddress: d6, DestinationAddress: s6, Options: os}
					}
					return []gopacket.SerializableLayer{ip, &layers.ICMPv6{TypeCode: layers.CreateICMPv6TypeCode(typ, 0)}, m}, nil
				}})
		}
	}
	// one option of every size class of the 8-bit length field (in units of 8 bytes): the
	// redirected-header option of a Redirect and a source link-layer option of an advertisement
	for _, units := range []int{1, 2, 31, 32, 33, 64, 128, 155, 255} {
		units := units
		for mi, name := range []string{"redirect", "router-advertisement"} {
			mi := mi
			out = append(out, Case{Desc: fmt.Sprintf("ndp-%s: one option of %d bytes", name, units*8), First: layers.LayerTypeIPv6, Small: units <= 2,
				Make: func() ([]gopacket.SerializableLayer, []byte) {
					data := make([]byte, units*8-2)
					for i := range data {
						data[i] = byte(i*5 + 1)
					}
					ip := &layers.IPv6{Version: 6, HopLimit: 255, NextHeader: layers.IPProtocolICMPv6, SrcIP: s6, DstIP: d6}
					if mi == 0 {
						os := layers.ICMPv6Options{{Type: layers.ICMPv6OptRedirectedHeader, Data: data}}
						return []gopacket.SerializableLayer{ip, &layers.ICMPv6{TypeCode: layers.CreateICMPv6TypeCode(layers.ICMPv6TypeRedirect, 0)}, &layers.ICMPv6Redirect{TargetAddress: d6, DestinationAddress: s6, Options: os}}, nil
					}
					os := layers.ICMPv6Options{{Type: layers.ICMPv6OptSourceAddress, Data: data}, {Type: layers.ICMPv6OptMTU, Data: []byte{0, 0, 0, 0, 5, 0xdc}}}
					return []gopacket.SerializableLayer{ip, &layers.ICMPv6{TypeCode: layers.CreateICMPv6TypeCode(layers.ICMPv6TypeRouterAdvertisement, 0)}, &layers.ICMPv6RouterAdvertisement{HopLimit: 64, Flags: 0x80, RouterLifetime: 1800, Options: os}}, nil
				}})
		}
	}
	return out
}

func GRE() []Case {
	var out []Case
	for f := 0; f < 16; f++ {
		f := f
		mk := func() *layers.GRE {
			g := &layers.GRE{ChecksumPresent: f&1 != 0, KeyPresent: f&2 != 0, SeqPresent: f&4 != 0, AckPresent: f&8 != 0, Protocol: layers.EthernetTypeIPv4}
			if g.AckPresent {
				g.Version = 1
				g.KeyPresent = true
				g.Ack = 11
			}
			if g.KeyPresent {
				g.Key = 0x01020304
			}
			if g.SeqPresent {
				g.Seq = 9
			}
			return g
		}
		g := mk()
		out = append(out, Case{Desc: fmt.Sprintf("gre: flags C=%v K=%v S=%v A=%v", g.ChecksumPresent, g.KeyPresent, g.SeqPresent, g.AckPresent), First: layers.LayerTypeIPv4, Small: true,
			Make: func() ([]gopacket.SerializableLayer, []byte) {
				ip := &layers.IPv4{Version: 4, IHL: 5, TTL: 64, Protocol: layers.IPProtocolGRE, SrcIP: s4, DstIP: d4}
				inner := &layers.IPv4{Version: 4, IHL: 5, TTL: 3, Protocol: layers.IPProtocolUDP, SrcIP: d4, DstIP: s4}
				return []gopacket.SerializableLayer{ip, mk(), inner, &layers.UDP{SrcPort: 40001, DstPort: 40002}}, PayloadN(6)
			}})
	}
	return out
}

// EthernetFrames: Ethernet II frames short enough to be padded to 60 bytes (the serializer
// APPENDS the padding) followed by longer ones through the same buffer, and 802.3 frames
// (length field + LLC + SNAP) with lengths around the 1500/1536 boundary between length and type.
func EthernetFrames() []Case {
	var out []Case
	mac1, mac2 := net.HardwareAddr{2, 0, 0, 0, 0, 1}, net.HardwareAddr{2, 0, 0, 0, 0, 2}
	for _, n := range []int{0, 1, 17, 18, 19, 100, 1400} {
		n := n
		out = append(out, Case{Desc: fmt.Sprintf("ethernet-padded: udp payload %d bytes", n), First: layers.LayerTypeEthernet, Small: n <= 1,
			Make: func() ([]gopacket.SerializableLayer, []byte) {
				return []gopacket.SerializableLayer{&layers.Ethernet{SrcMAC: mac1, DstMAC: mac2, EthernetType: layers.EthernetTypeIPv4},
					&layers.IPv4{Version: 4, IHL: 5, TTL: 64, Id: 7, Protocol: layers.IPProtocolUDP, SrcIP: s4, DstIP: d4}, &layers.UDP{SrcPort: 40001, DstPort: 40002}}, PayloadN(n)
			}})
	}
	for _, l := range []int{46, 100, 1499, 1500, 1501, 1510, 1535, 1536, 1537} {
		l := l
		out = append(out, Case{Desc: fmt.Sprintf("ethernet-802.3-llc-snap: length field %d", l), First: layers.LayerTypeEthernet, Small: l == 46, MayRefuse: l >= 1536,
			Make: func() ([]gopacket.SerializableLayer, []byte) {
				return []gopacket.SerializableLayer{&layers.Ethernet{SrcMAC: mac1, DstMAC: mac2, EthernetType: layers.EthernetTypeLLC},
					&layers.LLC{DSAP: 0xaa, SSAP: 0xaa, Control: 3}, &layers.SNAP{OrganizationalCode: []byte{0, 0, 0}, Type: layers.EthernetTypeIPv4},
					&layers.IPv4{Version: 4, IHL: 5, TTL: 64, Id: 7, Protocol: layers.IPProtocolUDP, SrcIP: s4, DstIP: d4}, &layers.UDP{SrcPort: 40001, DstPort: 40002}}, PayloadN(l - 3 - 5 - 20 - 8)
			}})
	}
	return out
}

// All returns the families C06 round-trips (in a fixed order).
func All(thorough bool) []Case {
	var all []Case
	all = append(all, Transport(thorough)...)
	all = append(all, IPv4Options()...)
	all = append(all, TCPOptions(false)...)
	all = append(all, IPv6TLVs()...)
	all = append(all, NDP()...)
	all = append(all, GRE()...)
	all = append(all, EthernetFrames()...)
	return all
}

const Rule = "transport: UDP, TCP, ICMPv4/6 over IPv4 and IPv6 x payload sizes {0,1,2,3,7,8,1499,1500,65527,65528,65529,65535,65536} (jumbograms over IPv6); ipv4-options / tcp-options: every list of 0..3 options over 5 / 6 option kinds (all padding residues); ipv6: hop-by-hop (as explicit layer and through IPv6.HopByHop) and destination headers with every list of 0..3 TLVs of data length 0..7 (all residues mod 8); ndp: the five neighbour-discovery messages x every list of 0..3 options over 4 kinds; gre: all 16 flag combinations; ethernet: Ethernet II frames padded to 60 bytes followed by longer ones, 802.3 + LLC + SNAP frames with length fields 46..1537 (1536 and 1537 may be refused by the serializer)."
